//! C02 — mailbox delivers accepted messages once, in order (E1 part)

use std::collections::HashMap;

use proptest::prelude::*;

use crate::core::*;
use crate::gate::DriveEnd;
use crate::gen;
use crate::runner::*;

pub struct C02;

#[derive(Clone, Debug)]
enum POp {
    Cast,
    Wrong,
    WrongCall,
    WrongDerived,
    Call,
    Yield,
    Sleep(u16),
    Stop,
    Kill,
    Drain,
}

pub fn scenario_strategy(tier: Tier) -> BoxedStrategy<Scenario> {
    let max_sched = if tier == Tier::Quick { 128 } else { 256 };
    let max_ops = if tier == Tier::Quick { 8 } else { 20 };
    let recv_variant = prop_oneof![3 => Just(Variant::Spawn), 2 => Just(Variant::TlSpawn), 1 => Just(Variant::Instant)];
    let hact = prop_oneof![
        10 => Just(Act::Yield),
        3 => (0u16..3).prop_map(Act::Sleep),
        6 => Just(Act::SendSelf),
        2 => Just(Act::SendTo(1)),
        1 => Just(Act::Fail),
        1 => Just(Act::Panic),
        1 => Just(Act::StopSelf),
        1 => Just(Act::DrainSelf),
    ];
    let hscript = proptest::collection::vec(hact, 0..=3);
    let sender_op = prop_oneof![
        20 => Just(POp::Cast),
        2 => Just(POp::Wrong),
        1 => Just(POp::WrongCall),
        1 => Just(POp::WrongDerived),
        2 => Just(POp::Call),
        5 => Just(POp::Yield),
        1 => (0u16..3).prop_map(POp::Sleep),
    ];
    let exit_op = prop_oneof![4 => Just(None), 1 => Just(Some(POp::Stop)), 1 => Just(Some(POp::Kill)), 1 => Just(Some(POp::Drain))];
    (
        recv_variant,
        proptest::collection::vec(hscript.clone(), 0..=4),
        proptest::collection::vec(prop_oneof![Just(Act::Yield), Just(Act::SendSelf)], 0..=2),
        // a start-up that takes a while: messages are accepted (and an exit may be requested) while
        // the actor is still inside pre_start
        proptest::collection::vec(prop_oneof![3 => Just(Act::Yield), 1 => (0u16..3).prop_map(Act::Sleep), 1 => Just(Act::SendSelf)], 0..=3),
        proptest::collection::vec(proptest::collection::vec(sender_op, 0..=max_ops), 2..=4),
        (exit_op, 0usize..16),
        gen::schedule(max_sched),
    )
        .prop_map(|(rv, handle, post_start, pre_start, senders, (exit, exit_delay), schedule)| {
            let recv = ActorSpec { variant: Some(rv), handle, post_start, pre_start, ..Default::default() };
            // a second, passive receiver (target of SendTo(1)) that echoes nothing
            let other = ActorSpec { variant: Some(Variant::Spawn), ..Default::default() };
            let mut clients: Vec<Vec<Op>> = vec![];
            for (c, ops) in senders.into_iter().enumerate() {
                let mut out = vec![];
                if c == 0 {
                    out.push(Op::Spawn(1));
                    out.push(Op::Spawn(0));
                }
                for (k, op) in ops.into_iter().enumerate() {
                    out.push(match op {
                        POp::Cast => Op::Cast { to: 0, seq: k as u32 },
                        POp::Wrong => Op::WrongCast(0),
                        POp::WrongCall => Op::WrongCall(0),
                        POp::WrongDerived => Op::WrongDerived(0),
                        POp::Call => Op::Call { to: 0, id: (c * 1000 + k) as u32, timeout_ms: Some(20) },
                        POp::Yield => Op::Yield,
                        POp::Sleep(ms) => Op::Sleep(ms),
                        _ => Op::Yield,
                    });
                }
                clients.push(out);
            }
            if let Some(e) = exit {
                let mut c = vec![Op::Yield; exit_delay];
                c.push(match e {
                    POp::Stop => Op::Stop(0),
                    POp::Kill => Op::Kill(0),
                    _ => Op::Drain(0),
                });
                clients.push(c);
            }
            Scenario { specs: vec![recv, other], clients, schedule }
        })
        .boxed()
}

#[derive(Debug, Clone)]
struct Send {
    key: (u16, u32, bool), // sender, seq/id, is_call
    start: usize,
    end: usize,
    accepted: bool,
    rejected: bool,
}

pub fn check(sc: &Scenario, ex: &Exec) -> Result<(bool, Vec<String>), Violation> {
    let tr = &ex.trace;
    let op_of = |c: usize, i: usize| sc.clients.get(c).and_then(|ops| ops.get(i));
    let mut sends: Vec<Send> = vec![];
    let mut open_ops: HashMap<(usize, usize), usize> = HashMap::new();
    let mut handled_at: HashMap<(u16, u32, bool), usize> = HashMap::new();
    let mut labels = vec![];
    let mut in_handler_since: Option<usize> = None;
    let mut send_during_handler = false;
    for (pos, e) in tr.iter().enumerate() {
        match &e.ev {
            Ev::OpStart { c, i } => {
                open_ops.insert((*c, *i), pos);
            }
            Ev::OpEnd { c, i, res } => {
                let start = open_ops.remove(&(*c, *i)).unwrap_or(pos);
                match op_of(*c, *i) {
                    Some(Op::Cast { to: 0, seq }) if *res != Res::Skipped => {
                        if in_handler_since.is_some() {
                            send_during_handler = true;
                        }
                        match res {
                            Res::Ok => sends.push(Send { key: (*c as u16, *seq, false), start, end: pos, accepted: true, rejected: false }),
                            Res::SendErr => sends.push(Send { key: (*c as u16, *seq, false), start, end: pos, accepted: false, rejected: true }),
                            other => return Err(viol("C02/unexpected-send-result", format!("cast returned {other:?} at #{pos}"))),
                        }
                    }
                    Some(Op::Call { to: 0, id, .. }) if *res != Res::Skipped => {
                        // the send part of a call happened at OpStart (call() sends synchronously when first polled)
                        match res {
                            Res::SendErr => sends.push(Send { key: (*c as u16, *id, true), start, end: start, accepted: false, rejected: true }),
                            Res::Success(_) | Res::Timeout | Res::SenderError => {
                                sends.push(Send { key: (*c as u16, *id, true), start, end: start, accepted: true, rejected: false })
                            }
                            other => return Err(viol("C02/unexpected-call-result", format!("call returned {other:?} at #{pos}"))),
                        }
                    }
                    Some(Op::WrongCast(0)) | Some(Op::WrongCall(0)) | Some(Op::WrongDerived(0)) if *res != Res::Skipped => {
                        labels.push("wrong-type-send".to_string());
                        if *res != Res::InvalidType {
                            return Err(viol("C02/wrong-type-accepted", format!("a send with the wrong message type returned {res:?} at #{pos}")));
                        }
                    }
                    _ => {}
                }
            }
            Ev::ActSend { a: _, to: 0, sender, seq, res } => match res {
                Res::Ok => sends.push(Send { key: (*sender, *seq, false), start: pos, end: pos, accepted: true, rejected: false }),
                Res::SendErr => sends.push(Send { key: (*sender, *seq, false), start: pos, end: pos, accepted: false, rejected: true }),
                other => return Err(viol("C02/unexpected-send-result", format!("self-send returned {other:?} at #{pos}"))),
            },
            Ev::Enter { a: 0, cb: Cb::Handle, tag } => {
                in_handler_since = Some(pos);
                let key = match tag {
                    Tag::Num { sender, seq } => Some((*sender, *seq, false)),
                    Tag::Call { id } => Some(((*id / 1000) as u16, *id, true)),
                    _ => None,
                };
                if let Some(key) = key {
                    if let Some(prev) = handled_at.insert(key, pos) {
                        return Err(viol("C02/handled-twice", format!("message {key:?} handled at #{prev} and again at #{pos}")));
                    }
                }
            }
            Ev::Exit { a: 0, cb: Cb::Handle, .. } | Ev::Unwind { a: 0, cb: Cb::Handle, .. } => in_handler_since = None,
            _ => {}
        }
    }
    // calls still outstanding when the trace ended never logged OpEnd: they were sent at OpStart
    // (only matters for the handled-never-sent rule below)
    let mut sent_keys: HashMap<(u16, u32, bool), &Send> = HashMap::new();
    for s in &sends {
        sent_keys.insert(s.key, s);
    }
    for ((c, i), start) in &open_ops {
        if let Some(Op::Call { to: 0, id, .. }) = op_of(*c, *i) {
            let _ = (start, id);
        }
    }
    for (key, pos) in &handled_at {
        match sent_keys.get(key) {
            Some(s) if s.rejected => {
                return Err(viol("C02/rejected-but-handled", format!("send of {key:?} returned SendErr (message handed back) but it was handled at #{pos}")));
            }
            Some(s) if s.start > *pos => {
                return Err(viol("C02/handled-before-sent", format!("{key:?} handled at #{pos} before its send started at #{}", s.start)));
            }
            Some(_) => {}
            None => {
                // an in-flight call (no OpEnd) is fine; anything else was invented
                let inflight = open_ops.iter().any(|((c, i), _)| matches!(op_of(*c, *i), Some(Op::Call { id, .. }) if *id == key.1 && key.2));
                if !inflight {
                    return Err(viol("C02/handled-never-sent", format!("{key:?} handled at #{pos} but no such send is in the history")));
                }
            }
        }
    }
    // real-time order between accepted sends
    let acc: Vec<&Send> = sends.iter().filter(|s| s.accepted).collect();
    for a in &acc {
        for b in &acc {
            if a.end < b.start {
                match (handled_at.get(&a.key), handled_at.get(&b.key)) {
                    (Some(ha), Some(hb)) if ha > hb => {
                        return Err(viol(
                            "C02/order",
                            format!("send {:?} completed (#{}) before send {:?} began (#{}), but they were handled at #{ha} and #{hb}", a.key, a.end, b.key, b.start),
                        ));
                    }
                    (None, Some(hb)) => {
                        return Err(viol(
                            "C02/skipped",
                            format!("send {:?} completed (#{}) before send {:?} began (#{}); the later one was handled (#{hb}) but the earlier one never", a.key, a.end, b.key, b.start),
                        ));
                    }
                    _ => {}
                }
            }
        }
    }
    // completeness: if nothing can end the receiver, every accepted message is handled by the settle point
    let exits = sc.clients.iter().flatten().any(|o| matches!(o, Op::Stop(0) | Op::StopReason(0) | Op::Kill(0) | Op::Drain(0) | Op::AbortTask(0)))
        || sc.specs[0].handle.iter().flatten().any(|a| matches!(a, Act::Fail | Act::Panic | Act::StopSelf | Act::KillSelf | Act::DrainSelf));
    if !exits && ex.end_main == DriveEnd::Done {
        labels.push("completeness-checked".into());
        for s in &acc {
            match handled_at.get(&s.key) {
                Some(h) if *h < ex.cut => {}
                _ => {
                    return Err(viol("C02/lost", format!("send {:?} returned Ok at #{} and the actor never exited, but the message was not handled", s.key, s.end)));
                }
            }
        }
    }
    let senders: std::collections::HashSet<u16> = acc.iter().filter(|s| handled_at.contains_key(&s.key)).map(|s| s.key.0).collect();
    let nontrivial = senders.len() >= 2 && send_during_handler;
    if sends.iter().any(|s| s.rejected) {
        labels.push("some-rejected".into());
    }
    if exits {
        labels.push("receiver-exits".into());
    }
    Ok((nontrivial, labels))
}

impl Part for C02 {
    type Case = Scenario;
    const PROP: &'static str = "C02";
    const PART: &'static str = "e1";
    fn cases(tier: Tier) -> u32 {
        match tier {
            Tier::Quick => 150_000,
            Tier::Thorough => 3_000_000,
        }
    }
    fn strategy(tier: Tier) -> BoxedStrategy<Scenario> {
        scenario_strategy(tier)
    }
    fn run(case: &Scenario, want_trace: bool) -> Outcome {
        let ex = exec_scenario(case, ExecOpts::default(), |_, _, _| {}, |_| vec![]);
        let trace = if want_trace { fmt_trace(&ex.trace) } else { vec![] };
        if let Some(p) = &ex.client_panic {
            return Outcome { verdict: Verdict::Fail(viol("C02/client-panic", p.clone())), nontrivial: false, labels: vec![], trace };
        }
        match check(case, &ex) {
            Err(v) => Outcome { verdict: Verdict::Fail(v), nontrivial: false, labels: vec![], trace },
            Ok((nontrivial, labels)) => {
                if ex.end_main == DriveEnd::Budget || ex.end_sweep == DriveEnd::Budget {
                    return Outcome { verdict: Verdict::Inconclusive("step budget".into()), nontrivial: false, labels, trace };
                }
                if ex.end_main == DriveEnd::Stuck || ex.end_sweep == DriveEnd::Stuck {
                    return Outcome { verdict: Verdict::Fail(viol("C02/stuck", format!("main={:?} sweep={:?}", ex.end_main, ex.end_sweep))), nontrivial, labels, trace };
                }
                Outcome { verdict: Verdict::Pass, nontrivial, labels, trace }
            }
        }
    }
    fn rule() -> &'static str {
        "generated receiver (Send/thread-local/instant) with handler scripts (awaits, self-sends, failures), 2-4 sender clients with numbered streams, wrong-typed sends (plain, via call, via a DerivedActorRef taken from a wrongly typed reference), calls, optional stop/kill/drain after a generated delay, schedule bytes; oracle = per-message fate model + real-time order over the recorded history; non-trivial = >=2 senders had messages handled and some send completed while a handler was open"
    }
}
