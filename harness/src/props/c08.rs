//! C08 — a failed or cancelled spawn leaves nothing behind (E1 + cut points)

use proptest::prelude::*;

use crate::core::*;
use crate::gate::DriveEnd;
use crate::gen;
use crate::runner::*;

pub struct C08;

const H: u8 = 0; // holder of name 0, member of group 0
const P: u8 = 1; // supervisor candidate
const O: u8 = 2; // other actor (link / send target), monitors nothing
const F: u8 = 3; // the spawn under test
const R: u8 = 4; // re-spawn under F's name afterwards

#[derive(Clone, Debug)]
enum Fail {
    Err,
    Panic,
    /// pre_start never finishes by itself; something external ends it
    Hang,
    /// pre_start succeeds: the failure (if any) comes from outside (cut, kill, supervisor refusing)
    None,
}

pub fn strategy(tier: Tier) -> BoxedStrategy<Scenario> {
    let max_sched = if tier == Tier::Quick { 128 } else { 256 };
    let side = prop_oneof![
        3 => Just(Act::Yield),
        1 => (0u16..3).prop_map(Act::Sleep),
        2 => gen::idx(3).prop_map(Act::Join),
        1 => Just(Act::MonitorGroup(0)),
        1 => Just(Act::Link(O)),
        1 => Just(Act::SendTo(O)),
        1 => Just(Act::SendSelf),
    ];
    let fail = prop_oneof![3 => Just(Fail::Err), 3 => Just(Fail::Panic), 2 => Just(Fail::Hang), 3 => Just(Fail::None)];
    let name = prop_oneof![2 => Just(None), 2 => Just(Some(0u8)), 3 => Just(Some(1u8))];
    // cut after k polls, hold; bit 7 of hold: the future is dropped while a panic unwinds (its owner panicked)
    let spawn_how = prop_oneof![3 => Just(None), 4 => (0u8..6, prop_oneof![2 => Just(0u8), 3 => 1u8..6], prop::bool::weighted(0.3)).prop_map(|(k, h, u)| Some((k, if u { h | 0x80 } else { h })))];
    let disturb = prop_oneof![
        3 => Just(vec![]),
        2 => (0usize..10).prop_map(|d| { let mut v = vec![Op::Yield; d]; v.push(Op::Kill(F)); v }),
        2 => (0usize..10).prop_map(|d| { let mut v = vec![Op::Yield; d]; v.push(Op::AbortTask(F)); v }),
        1 => (0usize..10).prop_map(|d| { let mut v = vec![Op::Yield; d]; v.push(Op::Drain(P)); v }),
        1 => (0usize..10).prop_map(|d| { let mut v = vec![Op::Yield; d]; v.push(Op::Stop(P)); v }),
        1 => (0usize..10).prop_map(|d| { let mut v = vec![Op::Yield; d]; v.push(Op::Kill(P)); v }),
    ];
    (
        gen::variant_any(),
        name,
        proptest::collection::vec(side, 0..=5),
        fail,
        spawn_how,
        disturb,
        (0usize..8, 0usize..8),
        gen::schedule(max_sched),
    )
        .prop_map(|(variant, name, mut pre, fail, cut, disturb, (d1, d2), schedule)| {
            match fail {
                Fail::Err => pre.push(Act::Fail),
                Fail::Panic => pre.push(Act::Panic),
                Fail::Hang => pre.push(Act::Hang),
                Fail::None => {}
            }
            let holder = ActorSpec { variant: Some(Variant::Spawn), name: Some(0), pre_start: vec![Act::Join(0)], ..Default::default() };
            let sup = ActorSpec { variant: Some(Variant::Spawn), sup_stops: false, handle: vec![vec![Act::Yield]], ..Default::default() };
            let other = ActorSpec { variant: Some(Variant::Spawn), sup_stops: false, ..Default::default() };
            let f = ActorSpec { variant: Some(variant), name, parent: if variant.is_linked() { Some(P) } else { None }, pre_start: pre, handle: vec![vec![Act::Yield]], ..Default::default() };
            let r = ActorSpec { variant: Some(Variant::Spawn), name: name.filter(|n| *n != 0), ..Default::default() };
            let mut c0 = vec![Op::Spawn(H), Op::Spawn(P), Op::Spawn(O)];
            c0.push(match cut {
                Some((k, hold)) if !variant.is_instant() => Op::SpawnCut(F, k, hold),
                _ => Op::Spawn(F),
            });
            if variant.is_instant() {
                c0.push(Op::AwaitStart(F));
            }
            // user of the leaked reference: queue a cast and calls while the start is in progress
            let mut c1 = vec![Op::Yield; d1];
            c1.push(Op::Cast { to: F, seq: 1 });
            c1.push(Op::Call { to: F, id: 1, timeout_ms: None });
            let mut c2 = vec![Op::Yield; d2];
            c2.push(Op::Call { to: F, id: 2, timeout_ms: None });
            // a hanging pre_start must be ended by somebody: late kill (also ends successful starts)
            // ... and afterwards somebody who still holds the reference tries to put the dead actor under
            // a live supervisor (a hand-over loop re-linking stale handles): it must stay in nobody's child set
            let late = vec![Op::Sleep(30), Op::Kill(F), Op::Sleep(5), Op::Wait { to: F, timeout_ms: None }, Op::Link { child: F, sup: O }, Op::Yield, Op::Spawn(R), Op::Probe(H), Op::WhereIs(0)];
            Scenario { specs: vec![holder, sup, other, f, r], clients: vec![c0, c1, c2, disturb, late], schedule }
        })
        .boxed()
}

pub fn check(sc: &Scenario, ex: &Exec) -> Result<(bool, Vec<String>), Violation> {
    let tr = &ex.trace;
    let f = F as usize;
    let op_of = |c: usize, i: usize| sc.clients.get(c).and_then(|ops| ops.get(i));
    let mut labels = vec![];
    let pre_ok_pos = tr.iter().position(|e| matches!(&e.ev, Ev::Exit { a, cb: Cb::PreStart, ok: true } if *a == f));
    let pre_entered = tr.iter().any(|e| matches!(&e.ev, Ev::Enter { a, cb: Cb::PreStart, .. } if *a == f));
    // how did the spawn call end?
    let mut spawn_res: Option<(usize, Res)> = None;
    for (pos, e) in tr.iter().enumerate() {
        if let Ev::OpEnd { c, i, res } = &e.ev {
            match op_of(*c, *i) {
                Some(Op::Spawn(F)) | Some(Op::SpawnCut(F, _, _)) => {
                    if !sc.specs[f].variant().is_instant() {
                        spawn_res = Some((pos, res.clone()));
                    } else if matches!(res, Res::Err(_)) {
                        spawn_res = Some((pos, res.clone()));
                    }
                }
                Some(Op::AwaitStart(F)) if *res != Res::Skipped => spawn_res = Some((pos, res.clone())),
                _ => {}
            }
        }
    }
    let refused = matches!(&spawn_res, Some((_, Res::Err(m))) if !m.starts_with("join:"));
    let cut = matches!(&spawn_res, Some((_, Res::Cut))) || matches!(&spawn_res, Some((_, Res::Err(m))) if m.starts_with("join:"));
    let failed = refused || cut || pre_ok_pos.is_none();
    let class = if !failed {
        "started"
    } else if !pre_entered {
        "failed-before-pre_start"
    } else if pre_ok_pos.is_none() {
        "failed-in-pre_start"
    } else if cut {
        "cut-after-pre_start"
    } else {
        "refused-after-pre_start"
    };
    labels.push(class.to_string());
    let side_effects = tr.iter().filter(|e| matches!(&e.ev, Ev::ActDone { a, .. } | Ev::ActSend { a, .. } if *a == f)).count();
    let nontrivial = failed && pre_entered && side_effects >= 1;

    // name clash changes nothing about the holder
    if sc.specs[f].name == Some(0) {
        labels.push("name-clash".into());
        if pre_entered {
            return Err(viol("C08/clash-but-started", "spawn under a taken name ran pre_start"));
        }
        match &spawn_res {
            Some((_, Res::Err(m))) if m.contains("already registered") || m.contains("AlreadyRegistered") || m.contains("registered") => {}
            Some((_, other)) => return Err(viol("C08/clash-not-reported", format!("spawn under a taken name returned {other:?}"))),
            None => {}
        }
    }
    if ex.end_main == DriveEnd::Done {
        // holder still there and answering
        let mut probe_ok = false;
        let mut where_ok = false;
        for e in tr.iter() {
            if let Ev::OpEnd { c, i, res } = &e.ev {
                match op_of(*c, *i) {
                    Some(Op::Probe(H)) => probe_ok = matches!(res, Res::Success(_)),
                    Some(Op::WhereIs(0)) => where_ok = *res == Res::Found(H as i64),
                    _ => {}
                }
            }
        }
        if !probe_ok || !where_ok {
            return Err(viol("C08/holder-disturbed", format!("the original holder of the name: probe ok = {probe_ok}, where_is yields it = {where_ok}")));
        }
    }
    if !failed {
        return Ok((false, labels));
    }
    // --- from here on: the spawn did not produce a running actor
    let fail_pos = spawn_res.as_ref().map(|x| x.0).unwrap_or(usize::MAX);
    for (pos, e) in tr.iter().enumerate() {
        match &e.ev {
            Ev::Enter { a, cb, .. } if *a == f && *cb != Cb::PreStart => {
                if class == "cut-after-pre_start" && pos < fail_pos {
                    continue;
                }
                return Err(viol(
                    format!("C08/handler-ran:{class}"),
                    format!("the spawn did not produce a running actor ({class}, result {:?}) but {cb:?} of that actor ran at #{pos}", spawn_res.as_ref().map(|x| &x.1)),
                ));
            }
            Ev::Enter { a, cb: Cb::Sup, tag } => {
                let who = match tag {
                    Tag::Started { who } | Tag::Terminated { who, .. } | Tag::Failed { who, .. } => *who,
                    _ => -2,
                };
                if who == f as i64 && class != "cut-after-pre_start" {
                    return Err(viol(format!("C08/supervision-event:{class}"), format!("actor {a} received {tag:?} at #{pos} about an actor whose spawn failed ({class})")));
                }
            }
            _ => {}
        }
    }
    if ex.end_main == DriveEnd::Done {
        // the probe snapshot (taken before the sweep)
        let snap = tr.iter().rev().find_map(|e| match &e.ev {
            Ev::Snap { a, status, name_hit, pid_hit, in_groups, pointed_at_by, own_children, has_supervisor, listed_by } if *a == f => {
                Some((*status, *name_hit, *pid_hit, in_groups.clone(), pointed_at_by.clone(), *own_children, *has_supervisor, listed_by.clone()))
            }
            _ => None,
        });
        if let Some((status, name_hit, pid_hit, in_groups, pointed, own_children, has_sup, listed_by)) = snap {
            if status != 6 {
                return Err(viol(format!("C08/not-stopped:{class}"), format!("failed spawn's cell has status {status} at quiescence")));
            }
            if name_hit {
                return Err(viol("C08/name-leaked", "the failed actor is still registered under its name"));
            }
            if pid_hit {
                return Err(viol("C08/pid-leaked", "the failed actor is still in the pid registry"));
            }
            if !in_groups.is_empty() {
                return Err(viol("C08/group-leaked", format!("the failed actor is still a member of groups {in_groups:?}")));
            }
            if has_sup || !listed_by.is_empty() || !pointed.is_empty() || own_children != 0 {
                return Err(viol("C08/link-leaked", format!("the failed actor still has links: supervisor={has_sup} listed_by={listed_by:?} pointed_at_by={pointed:?} children={own_children}")));
            }
        }
        // name reusable
        if let Some(n) = sc.specs[f].name {
            if n != 0 {
                let r = tr.iter().find_map(|e| match &e.ev {
                    Ev::OpEnd { c, i, res } if matches!(op_of(*c, *i), Some(Op::Spawn(R))) => Some(res.clone()),
                    _ => None,
                });
                if let Some(r) = r {
                    if r != Res::Ok {
                        return Err(viol("C08/name-not-reusable", format!("a new spawn under the failed actor's name returned {r:?}")));
                    }
                    labels.push("name-reused".into());
                }
            }
        }
        // queued calls completed with an error, queued cast never handled (checked above via handler-ran)
        for (pos, e) in tr.iter().enumerate() {
            if let Ev::OpEnd { c, i, res } = &e.ev {
                if let Some(Op::Call { to: F, .. }) = op_of(*c, *i) {
                    match res {
                        Res::SenderError | Res::SendErr | Res::Skipped => {}
                        Res::Success(_) if class == "cut-after-pre_start" => {}
                        other => return Err(viol("C08/queued-call-result", format!("a call queued to the failing actor returned {other:?} at #{pos}"))),
                    }
                }
            }
        }
    }
    Ok((nontrivial, labels))
}

impl Part for C08 {
    type Case = Scenario;
    const PROP: &'static str = "C08";
    const PART: &'static str = "e1";
    fn cases(tier: Tier) -> u32 {
        match tier {
            Tier::Quick => 100_000,
            Tier::Thorough => 2_000_000,
        }
    }
    fn strategy(tier: Tier) -> BoxedStrategy<Scenario> {
        strategy(tier)
    }
    fn run(case: &Scenario, want_trace: bool) -> Outcome {
        let ex = exec_scenario(case, ExecOpts::default(), |_, _, _| {}, |w| {
            snapshot(w, F as usize);
            vec![]
        });
        let trace = if want_trace { fmt_trace(&ex.trace) } else { vec![] };
        if let Some(p) = &ex.client_panic {
            return Outcome { verdict: Verdict::Fail(viol("C08/client-panic", p.clone())), nontrivial: false, labels: vec![], trace };
        }
        match check(case, &ex) {
            Err(v) => Outcome { verdict: Verdict::Fail(v), nontrivial: false, labels: vec![], trace },
            Ok((nontrivial, labels)) => {
                if ex.end_main == DriveEnd::Budget || ex.end_sweep == DriveEnd::Budget {
                    return Outcome { verdict: Verdict::Inconclusive("step budget".into()), nontrivial: false, labels, trace };
                }
                if ex.end_main == DriveEnd::Stuck {
                    return Outcome { verdict: Verdict::Fail(viol("C08/stuck", "a waiter or a caller of the failed actor hangs forever (waiters not released / reply ports not closed)")), nontrivial, labels, trace };
                }
                if ex.end_sweep == DriveEnd::Stuck {
                    return Outcome { verdict: Verdict::Fail(viol("C08/stuck-after-kill", "tasks blocked after the final sweep")), nontrivial, labels, trace };
                }
                Outcome { verdict: Verdict::Pass, nontrivial, labels, trace }
            }
        }
    }
    fn rule() -> &'static str {
        "generated spawn under test (8 variants incl. thread-local and instant; no name / a taken name / a free name; linked to a supervisor that may be draining, stopping or killed) whose pre_start performs generated side effects (group joins, group monitoring, link to a third actor, sends, self-sends, leaked myself used by clients that queue casts and calls) before failing by Err, panic, external kill, task abort, supervisor refusal, or by the spawning future being dropped after k polls (cut-point injection; in 30% of these the drop happens while a panic of the owning task unwinds), followed by a late attempt to link the dead actor under a live one; oracle = residue predicate over registries, groups, links, supervision logs, queued calls and waiters at quiescence + name reuse + holder untouched; non-trivial = the start failed after pre_start had begun and performed >=1 side effect"
    }
}
