#![allow(dead_code)]
mod cluster;
mod core;
mod e2;
mod gate;
mod gen;
mod props;
mod runner;

use runner::{desc, foreign, PartDesc, Tier};

fn registry() -> Vec<PartDesc> {
    let mut v = vec![];
    v.push(desc::<props::c01::C01>("exploration"));
    v.push(desc::<props::c02::C02>("exploration"));
    v.push(desc::<props::c07::C02E2>("exploration"));
    v.push(desc::<props::c03::C03>("exploration"));
    v.push(desc::<props::c03::C03Inject>("exploration"));
    v.push(desc::<props::c04::C04>("fault_enumeration"));
    v.push(desc::<props::c05::C05>("exploration"));
    v.push(desc::<props::c05::e2part::C05E2>("exploration"));
    v.push(desc::<props::c05::e2part::C05E2X>("exploration"));
    v.push(desc::<props::c05::e2part::C05Free>("exploration"));
    v.push(desc::<props::c06::C06>("exploration"));
    v.push(desc::<props::c06::e2part::C06E2>("exploration"));
    v.push(desc::<props::c06::e2part::C06E2X>("exploration"));
    v.push(desc::<props::c06::e2part::C06Free>("exploration"));
    v.push(desc::<props::c07::C07E1>("exploration"));
    v.push(desc::<props::c07::C07E2>("exploration"));
    v.push(desc::<props::c07::C07E2X>("exploration"));
    v.push(desc::<props::c07::C07Free>("exploration"));
    v.push(desc::<props::c07::loopfree::C07LoopFree>("exploration"));
    v.push(desc::<props::c09::C09>("exploration"));
    v.push(desc::<props::c10::C10E1>("exploration"));
    v.push(desc::<props::c10::C10E2>("exploration"));
    v.push(desc::<props::c10::C10E2X>("exploration"));
    v.push(desc::<props::c10::C10Free>("exploration"));
    v.push(desc::<props::c11::C11E0>("exploration"));
    v.push(desc::<props::c11::C11E2>("exploration"));
    v.push(desc::<props::c11::C11E2X>("exploration"));
    v.push(desc::<props::c11::C11Free>("exploration"));
    v.push(desc::<props::c12::C12>("exploration"));
    v.push(desc::<props::c08::C08>("fault_enumeration"));
    v.push(desc::<props::factory::C13>("fault_enumeration"));
    v.push(desc::<props::factory::C14>("exploration"));
    v.push(desc::<props::factory::C15>("exploration"));
    v.push(desc::<props::factory::C15Bucket>("exploration"));
    v.push(desc::<props::c16::C16>("exploration"));
    v.push(desc::<props::c16::threads::C16Threads>("exploration"));
    v.push(desc::<props::c17::C17Fsm>("exploration"));
    v.push(desc::<props::c17::C17FsmX>("exploration"));
    v.push(desc::<props::c17::C17Adv>("exploration"));
    v.push(desc::<props::c18::C18Elect>("exploration"));
    v.push(desc::<props::c18::C18Table>("exploration"));
    v.push(desc::<props::c18::C18Dup>("exploration"));
    v.push(desc::<props::c19::C19Framing>("exploration"));
    v.push(desc::<props::c19::C19Codec>("exploration"));
    v.push(desc::<props::c19::C19Decode>("exploration"));
    v.push(desc::<props::c19::C19Stream>("exploration"));
    v.push(desc::<props::c20::C20Remote>("exploration"));
    #[cfg(not(feature = "v2"))]
    v.push(foreign("C16", "e1-v2", "v2", "exploration"));
    #[cfg(not(feature = "v2"))]
    v.push(foreign("C16", "free-threads-v2", "v2", "exploration"));
    #[cfg(feature = "async-trait")]
    v.push(desc::<props::c01::C01At>("exploration"));
    #[cfg(not(feature = "async-trait"))]
    v.push(foreign("C01", "e1-async-trait", "at", "exploration"));
    v
}

fn arg_val(args: &[String], name: &str) -> Option<String> {
    args.iter().position(|a| a == name).and_then(|i| args.get(i + 1).cloned())
}

/// set for parts whose cases make the code under test panic on purpose (caught decoder panics)
static QUIET_PANICS: std::sync::atomic::AtomicBool = std::sync::atomic::AtomicBool::new(false);

fn install_panic_hook() {
    if std::env::var("RV_QUIET_PANICS").is_ok() {
        QUIET_PANICS.store(true, std::sync::atomic::Ordering::Relaxed);
    }
    let default = std::panic::take_hook();
    std::panic::set_hook(Box::new(move |info| {
        let msg = info
            .payload()
            .downcast_ref::<String>()
            .cloned()
            .or_else(|| info.payload().downcast_ref::<&str>().map(|s| s.to_string()))
            .unwrap_or_default();
        if msg.starts_with("boom") || QUIET_PANICS.load(std::sync::atomic::Ordering::Relaxed) {
            return;
        }
        let _ = &default;
        let loc = info.location().map(|l| format!("{}:{}", l.file(), l.line())).unwrap_or_default();
        eprintln!("panic: {msg} at {loc}");
    }));
}

/// the tree under /repo this binary was compiled from vs. the tree as it is now
fn warn_if_stale() {
    let built = env!("RV_REPO_STATE");
    let now = runner::current_repo_state();
    if built != now {
        eprintln!("WARNING: this rv binary was built from /repo state {built}, the tree is now {now}: STALE BINARY — rebuild with /verif/check (results below describe the old tree)");
    }
}

fn main() {
    install_panic_hook();
    let args: Vec<String> = std::env::args().skip(1).collect();
    let reg = registry();
    let tier = match arg_val(&args, "--tier").or_else(|| std::env::var("VERIF_TIER").ok()).as_deref() {
        Some("thorough") => Tier::Thorough,
        _ => Tier::Quick,
    };
    let seed: u64 = arg_val(&args, "--seed")
        .or_else(|| std::env::var("VERIF_SEED").ok())
        .and_then(|s| s.parse().ok())
        .unwrap_or(1);
    match args.first().map(|s| s.as_str()) {
        Some("run") => {
            warn_if_stale();
            let prop = args.get(1).expect("property id");
            let parts: Vec<&PartDesc> = reg.iter().filter(|p| p.prop == prop).collect();
            if parts.is_empty() {
                eprintln!("unknown property {prop}");
                std::process::exit(2);
            }
            let jobs: u32 = arg_val(&args, "--jobs").and_then(|s| s.parse().ok()).unwrap_or(16);
            let only = arg_val(&args, "--part");
            std::process::exit(runner::run_property(&parts, tier, seed, jobs, only.as_deref()));
        }
        Some("shard") => {
            let prop = args.get(1).expect("property id");
            let part = args.get(2).expect("part");
            let shard: u32 = arg_val(&args, "--shard").and_then(|s| s.parse().ok()).unwrap_or(0);
            let of: u32 = arg_val(&args, "--of").and_then(|s| s.parse().ok()).unwrap_or(1);
            let cases: Option<u32> = arg_val(&args, "--cases").and_then(|s| s.parse().ok());
            let p = reg.iter().find(|p| p.prop == prop && p.part == part).expect("unknown part");
            let f = p.shard_fn.expect("part not built into this binary variant");
            if prop == "C19" {
                QUIET_PANICS.store(true, std::sync::atomic::Ordering::Relaxed);
            }
            runner::start_watchdog(30);
            let r = f(tier, seed, shard, of, cases);
            println!("SHARD-RESULT {}", serde_json::to_string(&r).unwrap());
        }
        Some("replay") => {
            let prop = args.get(1).expect("property id");
            let file = args.get(2).expect("replay file");
            let s = std::fs::read_to_string(file).expect("read replay");
            let v: serde_json::Value = serde_json::from_str(&s).expect("json");
            let part = v["part"].as_str().unwrap_or("").to_string();
            let p = reg.iter().find(|p| p.prop == prop && p.part == part).expect("unknown part");
            if p.replay_fn.is_some() && std::env::var("RV_INNER").is_err() {
                // run the case in a child: a case that aborts the process is still reported
                let st = std::process::Command::new(std::env::current_exe().expect("exe")).args(["replay", prop, file]).env("RV_INNER", "1").status().expect("spawn replay child");
                match st.code() {
                    Some(c) => std::process::exit(c),
                    None => {
                        println!("FAIL {prop}/process-crash: the process was killed by a signal ({st:?}) while executing the case");
                        println!("VIOLATION property={prop} replay={file}");
                        std::process::exit(1);
                    }
                }
            }
            match p.replay_fn {
                Some(f) => std::process::exit(f(file)),
                None => {
                    eprintln!("part {part} lives in binary variant '{}'", p.variant);
                    std::process::exit(2);
                }
            }
        }
        Some("fuzz-seeds") => {
            // golden inputs for the cargo-fuzz targets, produced with the real encoders
            let dir = std::path::PathBuf::from(args.get(1).expect("directory"));
            props::c19::write_fuzz_seeds(&dir);
        }
        Some("built-from") => println!("{}", env!("RV_REPO_STATE")),
        Some("list") => {
            for p in &reg {
                println!("{} {} variant='{}' level={}", p.prop, p.part, p.variant, p.level);
            }
        }
        _ => {
            eprintln!("usage: rv run <PROP> [--tier quick|thorough] [--seed N] [--jobs J] [--part P] | rv shard <PROP> <PART> ... | rv replay <PROP> <file> | rv list");
            std::process::exit(2);
        }
    }
}
