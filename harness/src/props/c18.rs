//! C18 — duplicate connections converge on one and the same link.
//!
//! * `e0-elect`: the election function on generated candidate multisets, seen from both ends
//!   (mirrored views with independent actor-id assignments and candidate orders).
//! * `e0-table`: generated histories on a detached `NodeServerState`, run twice — with and
//!   without the sessions that never authenticate — and compared (metamorphic).
//! * `e3-duplicates`: two real node servers joined by 1..4 in-memory links opened in generated
//!   order (both directions, generated nonces incl. legacy zero and repeats, late dials, an
//!   optional impostor that claims the peer's name), generated schedules and fragmentation.

use std::collections::BTreeSet;
use std::sync::{Arc, Mutex};

use proptest::prelude::*;
use ractor::{Actor, ActorId, ActorProcessingErr, ActorRef};
use ractor_cluster::verif::election::{elect, Candidate, Check, Table};
use ractor_cluster::NodeSessionMessage;
use serde::{Deserialize, Serialize};

use crate::cluster::*;
use crate::core::{fmt_trace, log, run_in_runtime_opts, take_trace, viol, Ev, Violation};
use crate::gate::DriveEnd;
use crate::gen;
use crate::runner::*;

const NAME_PAIRS: [(&str, &str); 7] = [
    ("a@host", "b@host"),
    ("b@host", "a@host"),
    ("n1@h", "n10@h"),
    ("n10@h", "n2@h"),
    ("A@h", "a@h"),
    ("x@h", "x@h2"),
    ("zz@host", "z@host"),
];
const NONCES: [u64; 6] = [0, 1, 2, 3, u64::MAX, 1 << 40];

// ---------------------------------------------------------------------------------
// e0-elect

#[derive(Clone, Debug, Serialize, Deserialize)]
pub struct ElectCase {
    pub names: u8,
    /// (initiated by node 0, nonce index)
    pub conns: Vec<(bool, u8)>,
    pub idkeys0: Vec<u8>,
    pub idkeys1: Vec<u8>,
    pub perm0: Vec<u8>,
    pub perm1: Vec<u8>,
}

fn rank(keys: &[u8], n: usize) -> Vec<usize> {
    // rank of each index when sorting by (key, index)
    let mut idx: Vec<usize> = (0..n).collect();
    idx.sort_by_key(|i| (keys.get(*i).copied().unwrap_or(0), *i));
    let mut r = vec![0; n];
    for (pos, i) in idx.iter().enumerate() {
        r[*i] = pos;
    }
    r
}

fn view(conns: &[(bool, u8)], node: usize, idrank: &[usize], perm: &[u8]) -> Vec<Candidate> {
    let mut v: Vec<(usize, Candidate)> = conns
        .iter()
        .enumerate()
        .map(|(i, (from0, nonce))| {
            let initiator = if *from0 { 0 } else { 1 };
            (i, Candidate { actor_id: ActorId::Local(100 + idrank[i] as u64), is_server: initiator != node, connection_id: NONCES[*nonce as usize % NONCES.len()] })
        })
        .collect();
    let order = rank(perm, v.len());
    v.sort_by_key(|(i, _)| order[*i]);
    v.into_iter().map(|(_, c)| c).collect()
}

fn to_conns(elected: &[ActorId], idrank: &[usize]) -> BTreeSet<usize> {
    elected
        .iter()
        .filter_map(|id| match id {
            ActorId::Local(p) => idrank.iter().position(|r| 100 + *r as u64 == *p),
            _ => None,
        })
        .collect()
}

pub struct C18Elect;

fn judge_elect(case: &ElectCase) -> Result<(bool, Vec<String>), Violation> {
    let (n0, n1) = NAME_PAIRS[case.names as usize % NAME_PAIRS.len()];
    let n = case.conns.len();
    let r0 = rank(&case.idkeys0, n);
    let r1 = rank(&case.idkeys1, n);
    let ident: Vec<u8> = (0..n as u8).collect();
    let v0 = view(&case.conns, 0, &r0, &case.perm0);
    let v1 = view(&case.conns, 1, &r1, &case.perm1);
    let e0 = elect(n0, n1, &v0);
    let e1 = elect(n1, n0, &v1);
    // subset / non-empty / no duplicates
    for (who, e, v) in [(0, &e0, &v0), (1, &e1, &v1)] {
        if n > 0 && e.is_empty() {
            return Err(viol("C18/elect-empty", format!("node {who}: nobody elected among {v:?}")));
        }
        let ids: BTreeSet<_> = e.iter().collect();
        if ids.len() != e.len() || e.iter().any(|id| !v.iter().any(|c| c.actor_id == *id)) {
            return Err(viol("C18/elect-not-subset", format!("node {who}: elected {e:?} from {v:?}")));
        }
    }
    let s0 = to_conns(&e0, &r0);
    let s1 = to_conns(&e1, &r1);
    // order independence
    let e0b = elect(n0, n1, &view(&case.conns, 0, &r0, &ident));
    let e1b = elect(n1, n0, &view(&case.conns, 1, &r1, &ident));
    if to_conns(&e0b, &r0) != s0 || to_conns(&e1b, &r1) != s1 {
        return Err(viol("C18/elect-order-dependent", format!("the elected set changes with the order of the candidates: {:?} vs {:?} / {:?} vs {:?} ({case:?})", s0, to_conns(&e0b, &r0), s1, to_conns(&e1b, &r1))));
    }
    // stability: electing among the winners keeps the winners
    let again0: Vec<Candidate> = v0.iter().filter(|c| e0.contains(&c.actor_id)).copied().collect();
    if to_conns(&elect(n0, n1, &again0), &r0) != s0 {
        return Err(viol("C18/elect-unstable", format!("re-running the election among the winners {s0:?} changes them ({case:?})")));
    }
    if n == 0 {
        return Ok((false, vec![]));
    }
    // agreement between the two ends
    let common: BTreeSet<usize> = s0.intersection(&s1).copied().collect();
    if common.len() != 1 {
        return Err(viol("C18/elect-disagree", format!("names ({n0},{n1}) connections {:?}: node 0 keeps {s0:?}, node 1 keeps {s1:?} — not exactly one common link", case.conns)));
    }
    if s0.len() != 1 && s1.len() != 1 {
        return Err(viol("C18/elect-disagree", format!("names ({n0},{n1}) connections {:?}: neither end settles on one link: {s0:?} / {s1:?}", case.conns)));
    }
    // the end that keeps more than one may only do so for outgoing links tied on the nonce
    for (who, s) in [(0usize, &s0), (1usize, &s1)] {
        if s.len() > 1 {
            let all_outgoing = s.iter().all(|i| (if case.conns[*i].0 { 0 } else { 1 }) == who);
            let nonces: BTreeSet<u64> = s.iter().map(|i| NONCES[case.conns[*i].1 as usize % NONCES.len()]).collect();
            if !all_outgoing || nonces.len() != 1 {
                return Err(viol("C18/elect-disagree", format!("node {who} keeps several links {s:?} that are not outgoing nonce ties ({:?})", case.conns)));
            }
        }
    }
    let mut labels = vec![];
    let both_dirs = case.conns.iter().any(|c| c.0) && case.conns.iter().any(|c| !c.0);
    if both_dirs {
        labels.push("simultaneous".to_string());
    }
    let nonce_vals: Vec<u64> = case.conns.iter().map(|c| NONCES[c.1 as usize % NONCES.len()]).collect();
    let ties = nonce_vals.iter().any(|x| nonce_vals.iter().filter(|y| *y == x).count() > 1);
    if ties {
        labels.push("nonce-tie-or-legacy".to_string());
    }
    Ok((n >= 2, labels))
}

impl Part for C18Elect {
    type Case = ElectCase;
    const PROP: &'static str = "C18";
    const PART: &'static str = "e0-elect";
    fn cases(tier: Tier) -> u32 {
        match tier {
            Tier::Quick => 300_000,
            Tier::Thorough => 10_000_000,
        }
    }
    fn strategy(_tier: Tier) -> BoxedStrategy<ElectCase> {
        (0u8..7, proptest::collection::vec((any::<bool>(), 0u8..6), 0..=5), proptest::collection::vec(any::<u8>(), 5), proptest::collection::vec(any::<u8>(), 5), proptest::collection::vec(any::<u8>(), 5), proptest::collection::vec(any::<u8>(), 5))
            .prop_map(|(names, conns, idkeys0, idkeys1, perm0, perm1)| ElectCase { names, conns, idkeys0, idkeys1, perm0, perm1 })
            .boxed()
    }
    fn run(case: &ElectCase, _t: bool) -> Outcome {
        match judge_elect(case) {
            Err(v) => Outcome { verdict: Verdict::Fail(v), nontrivial: false, labels: vec![], trace: vec![] },
            Ok((nt, labels)) => Outcome::pass(nt, labels),
        }
    }
    fn rule() -> &'static str {
        "generated multisets of 0-5 physical connections between two nodes (seven name pairs incl. prefix/case/length orderings; initiator; nonce from {legacy 0, 1, 2, 3, 2^40, u64::MAX} so repeats are frequent), independent actor-id assignments and candidate orders at the two ends; oracle: elect_sessions returns a non-empty duplicate-free subset, is invariant under candidate order, is stable on its own result, the two mirrored views share exactly one link, at least one end keeps exactly one, and an end keeps several only for outgoing links tied on the nonce; non-trivial = at least two connections"
    }
}

// ---------------------------------------------------------------------------------
// e0-table

struct DummySession;
#[cfg_attr(feature = "async-trait", ractor::async_trait)]
impl Actor for DummySession {
    type Msg = NodeSessionMessage;
    type State = ();
    type Arguments = ();
    async fn pre_start(&self, _m: ActorRef<NodeSessionMessage>, _a: ()) -> Result<(), ActorProcessingErr> {
        Ok(())
    }
}

#[derive(Clone, Debug, Serialize, Deserialize)]
pub enum TOp {
    Open { server: bool, impostor: bool },
    Register { s: u8, name: u8, nonce: u8 },
    Check { s: u8 },
    Commit { s: u8 },
    Close { s: u8 },
}

#[derive(Clone, Debug, Serialize, Deserialize)]
pub struct TableCase {
    pub this: u8,
    pub ops: Vec<TOp>,
}

const PEERS: [&str; 3] = ["b@host", "c@host", "0@host"];
const THIS: [&str; 2] = ["a@host", "bb@host"];

pub struct C18Table;

fn judge_table(case: &TableCase) -> Result<(bool, Vec<String>), Violation> {
    let this = THIS[case.this as usize % THIS.len()];
    let mut with = Table::new(this);
    let mut without = Table::new(this);
    struct S {
        cell: ractor::ActorCell,
        _ports: ractor::verif::DetachedPorts,
        id: ActorId,
        impostor: bool,
        reg: Option<(u8, u8)>,
        authed: bool,
        closed: bool,
    }
    let mut ss: Vec<S> = vec![];
    let mut nontrivial = false;
    let mut labels = vec![];
    let mut result = Ok(());
    'ops: for (i, op) in case.ops.iter().enumerate() {
        match op {
            TOp::Open { server, impostor } => {
                if ss.len() >= 6 {
                    continue;
                }
                let (cell, ports) = ractor::verif::detached_cell::<DummySession>(None).expect("cell");
                let r: ActorRef<NodeSessionMessage> = cell.clone().into();
                with.open(r.clone(), *server);
                if !impostor {
                    without.open(r, *server);
                }
                ss.push(S { id: cell.get_id(), cell, _ports: ports, impostor: *impostor, reg: None, authed: false, closed: false });
            }
            TOp::Register { s, name, nonce } => {
                if ss.is_empty() {
                    continue;
                }
                let k = *s as usize % ss.len();
                if ss[k].closed || ss[k].authed {
                    continue;
                }
                let (pn, nn) = (PEERS[*name as usize % PEERS.len()], NONCES[*nonce as usize % NONCES.len()]);
                with.register(ss[k].id, pn, nn);
                if !ss[k].impostor {
                    without.register(ss[k].id, pn, nn);
                }
                ss[k].reg = Some((*name, *nonce));
            }
            TOp::Check { s } => {
                if ss.is_empty() {
                    continue;
                }
                let k = *s as usize % ss.len();
                let Some((name, nonce)) = ss[k].reg else { continue };
                if ss[k].closed || ss[k].impostor || ss[k].authed {
                    continue;
                }
                let (pn, nn) = (PEERS[name as usize % PEERS.len()], NONCES[nonce as usize % NONCES.len()]);
                let a = with.check(pn, nn);
                let b = without.check(pn, nn);
                let allowed = |c: Check| matches!(c, Check::NoOtherConnection | Check::ThisConnectionContinues);
                if allowed(b) && !allowed(a) {
                    result = Err(viol("C18/unauthenticated-veto", format!("op {i}: session {k} ({pn}, nonce {nn}) is answered {a:?} but would be answered {b:?} without the sessions that never authenticate")));
                    break 'ops;
                }
            }
            TOp::Commit { s } => {
                if ss.is_empty() {
                    continue;
                }
                let k = *s as usize % ss.len();
                if ss[k].closed || ss[k].impostor || ss[k].reg.is_none() || ss[k].authed {
                    continue;
                }
                let a = with.commit(ss[k].id).map(|(sv, mut l)| {
                    l.sort();
                    (sv, l)
                });
                let b = without.commit(ss[k].id).map(|(sv, mut l)| {
                    l.sort();
                    (sv, l)
                });
                ss[k].authed = true;
                let impostor_same_name = ss.iter().any(|x| x.impostor && !x.closed && x.reg.map(|r| r.0 as usize % PEERS.len()) == ss[k].reg.map(|r| r.0 as usize % PEERS.len()));
                if impostor_same_name {
                    nontrivial = true;
                }
                if a != b {
                    result = Err(viol("C18/unauthenticated-displaces", format!("op {i}: authenticating session {k}: outcome {a:?} with, {b:?} without the sessions that never authenticate")));
                    break 'ops;
                }
                if let Some((_, losers)) = a {
                    if let Some(l) = losers.iter().find(|l| ss.iter().any(|x| x.id == **l && x.impostor)) {
                        result = Err(viol("C18/unauthenticated-displaces", format!("op {i}: an unauthenticated session {l} takes part in the election")));
                        break 'ops;
                    }
                    // the node server stops the losers; their exit removes them
                    for l in losers {
                        with.close(l);
                        without.close(l);
                        if let Some(x) = ss.iter_mut().find(|x| x.id == l) {
                            x.closed = true;
                        }
                    }
                }
            }
            TOp::Close { s } => {
                if ss.is_empty() {
                    continue;
                }
                let k = *s as usize % ss.len();
                with.close(ss[k].id);
                without.close(ss[k].id);
                ss[k].closed = true;
            }
        }
        for x in ss.iter().filter(|x| !x.impostor && !x.closed) {
            let (a, b) = (with.is_elected(x.id), without.is_elected(x.id));
            if a != b {
                result = Err(viol("C18/unauthenticated-displaces", format!("after op {i} ({op:?}): session {} elected = {a} with, {b} without the sessions that never authenticate", x.id)));
                break 'ops;
            }
            if with.is_authenticated(x.id) != x.authed {
                result = Err(viol("C18/table-auth-flag", format!("after op {i}: session {} authenticated flag {} expected {}", x.id, with.is_authenticated(x.id), x.authed)));
                break 'ops;
            }
        }
        if let Some(x) = ss.iter().find(|x| x.impostor && with.is_authenticated(x.id)) {
            result = Err(viol("C18/table-auth-flag", format!("after op {i}: never-committed session {} is marked authenticated", x.id)));
            break 'ops;
        }
    }
    for x in &ss {
        ractor::verif::set_status(&x.cell, ractor::ActorStatus::Stopped);
    }
    if ss.iter().any(|x| x.impostor) {
        labels.push("with-impostor".to_string());
    }
    result.map(|_| (nontrivial, labels))
}

impl Part for C18Table {
    type Case = TableCase;
    const PROP: &'static str = "C18";
    const PART: &'static str = "e0-table";
    fn cases(tier: Tier) -> u32 {
        match tier {
            Tier::Quick => 80_000,
            Tier::Thorough => 3_000_000,
        }
    }
    fn strategy(_tier: Tier) -> BoxedStrategy<TableCase> {
        // sessions with a fixed plan (direction, impostor?, claimed name, nonce); the history advances
        // a generated session through open -> register -> authenticate, interleaved with checks,
        // re-registrations by impostors and exits
        let ses = (any::<bool>(), prop_oneof![3 => Just(false), 2 => Just(true)], prop_oneof![5 => Just(0u8), 1 => Just(1u8), 1 => Just(2u8)], 0u8..6);
        let step = (0u8..6, prop_oneof![10 => Just(0u8), 3 => Just(1u8), 1 => Just(2u8), 2 => Just(3u8)], 0u8..6);
        (0u8..2, proptest::collection::vec(ses, 2..=6), proptest::collection::vec(step, 1..=30))
            .prop_map(|(this, plan, steps)| {
                let n = plan.len();
                let mut stage = vec![0u8; n];
                // sessions are opened in plan order so that indices in the ops match the plan
                let mut opened = 0usize;
                let mut ops = vec![];
                for (s, kind, x) in steps {
                    let k = s as usize % n;
                    match kind {
                        0 => {
                            // advance
                            if k >= opened {
                                for j in opened..=k {
                                    ops.push(TOp::Open { server: plan[j].0, impostor: plan[j].1 });
                                    stage[j] = 1;
                                }
                                opened = k + 1;
                            } else if stage[k] == 1 {
                                ops.push(TOp::Register { s: k as u8, name: plan[k].2, nonce: plan[k].3 });
                                stage[k] = 2;
                            } else if stage[k] == 2 && !plan[k].1 {
                                ops.push(TOp::Commit { s: k as u8 });
                                stage[k] = 3;
                            } else if plan[k].1 {
                                // an impostor changes its claim
                                ops.push(TOp::Register { s: k as u8, name: plan[k].2, nonce: x });
                            }
                        }
                        1 => ops.push(TOp::Check { s: k as u8 }),
                        2 => ops.push(TOp::Close { s: k as u8 }),
                        _ => {
                            if k < opened && plan[k].1 {
                                ops.push(TOp::Register { s: k as u8, name: x % 3, nonce: x });
                            }
                        }
                    }
                }
                TableCase { this, ops }
            })
            .boxed()
    }
    fn run(case: &TableCase, _t: bool) -> Outcome {
        match judge_table(case) {
            Err(v) => Outcome { verdict: Verdict::Fail(v), nontrivial: false, labels: vec![], trace: vec![] },
            Ok((nt, labels)) => Outcome::pass(nt, labels),
        }
    }
    fn rule() -> &'static str {
        "generated histories (up to 24 ops: open server/client sessions, register a claimed peer name + nonce, CheckSession, ConnectionAuthenticated, session exit) on a detached NodeServerState, executed twice — once with and once without the sessions marked as never authenticating (impostors claiming any name and nonce) — metamorphic oracle: every commit outcome (survives, losers) and every is_elected answer is identical, a never-authenticating session is never a loser or marked authenticated, and a CheckSession that is allowed without the impostors is allowed with them; non-trivial = a commit while a live impostor claims the same peer name"
    }
}

// ---------------------------------------------------------------------------------
// e3-duplicates

#[derive(Clone, Debug, Serialize, Deserialize)]
pub struct LinkSpec {
    pub from0: bool,
    /// index into the nonce pool (0 = legacy zero)
    pub nonce: u8,
    pub frag0: Vec<u8>,
    pub frag1: Vec<u8>,
}

#[derive(Clone, Debug, Serialize, Deserialize, PartialEq)]
pub enum DOp {
    Open { link: u8, side: u8 },
    Yield,
    /// let everything go quiet before continuing ("repeated dials" later in time)
    Settle,
    /// an impostor dials `node`, claims the other node's name with `nonce`, then does `stage`
    /// (0: nothing more, 1: answers the challenge with a wrong-cookie digest, 2: hangs up)
    Spoof { node: u8, nonce: u8, stage: u8 },
}

#[derive(Clone, Debug, Serialize, Deserialize)]
pub struct DupCase {
    pub names: u8,
    pub links: Vec<LinkSpec>,
    pub ops: Vec<DOp>,
    pub schedule: Vec<u8>,
}

pub struct C18Dup;

fn dup_strategy(tier: Tier) -> BoxedStrategy<DupCase> {
    let frag = || proptest::collection::vec(prop_oneof![Just(0u8), Just(1), Just(3), Just(8)], 0..3);
    let link = (any::<bool>(), prop_oneof![2 => Just(0u8), 3 => Just(1u8), 3 => Just(2u8), 2 => Just(3u8), 1 => Just(4u8)], frag(), frag()).prop_map(|(from0, nonce, frag0, frag1)| LinkSpec { from0, nonce, frag0, frag1 });
    let max_links = if tier == Tier::Quick { 3 } else { 4 };
    (0u8..7, proptest::collection::vec(link, 1..=max_links), proptest::collection::vec(any::<u8>(), 24), proptest::option::weighted(0.35, (0u8..2, 0u8..5, 0u8..3, any::<u8>())), gen::schedule(300))
        .prop_map(|(names, links, keys, spoof, schedule)| {
            // both ends of every link are opened exactly once, in an order given by the keys;
            // yields and settles are sprinkled in between
            let mut evs: Vec<(u8, DOp)> = vec![];
            for (i, _) in links.iter().enumerate() {
                evs.push((keys[2 * i], DOp::Open { link: i as u8, side: 0 }));
                evs.push((keys[2 * i + 1], DOp::Open { link: i as u8, side: 1 }));
            }
            if let Some((node, nonce, stage, key)) = spoof {
                evs.push((key, DOp::Spoof { node, nonce, stage }));
            }
            evs.sort_by_key(|(k, _)| *k);
            let mut ops = vec![];
            for (j, (k, op)) in evs.into_iter().enumerate() {
                ops.push(op);
                match keys[12 + j % 12].wrapping_add(k) % 8 {
                    0 | 1 => ops.push(DOp::Yield),
                    2 => {
                        ops.push(DOp::Yield);
                        ops.push(DOp::Yield);
                    }
                    3 => ops.push(DOp::Settle),
                    _ => {}
                }
            }
            DupCase { names, links, ops, schedule }
        })
        .boxed()
}

struct DupResult {
    end: DriveEnd,
    quiet: bool,
    /// per node: authenticated sessions as (peer_addr label, is_server, actor)
    listed: [Vec<(String, bool, ActorId)>; 2],
    ready_live: [Vec<(String, ActorId)>; 2],
    events: [Vec<EvtRec>; 2],
    link_cut: Vec<bool>,
    link_dead: Vec<bool>,
    trace: Vec<String>,
    /// (after which op index, listed at node 0, listed at node 1)
    mid: Vec<(usize, Vec<String>, Vec<String>)>,
}

fn run_dup(case: &DupCase, want_trace: bool) -> DupResult {
    let case = case.clone();
    run_in_runtime_opts(&case.schedule.clone(), true, move |mut env| async move {
        env.sched.steps_left = 120_000;
        let (n0, n1) = NAME_PAIRS[case.names as usize % NAME_PAIRS.len()];
        ractor_cluster::verif::clear_connection_nonces();
        let links: Vec<Link> = case.links.iter().enumerate().map(|(i, l)| {
            let k = Link::new(&format!("L{i}"));
            k.set_frag(0, l.frag0.clone());
            k.set_frag(1, l.frag1.clone());
            k
        }).collect();
        let nodes: Arc<Mutex<Vec<Arc<Node>>>> = Arc::new(Mutex::new(vec![]));
        let (nodes2, names) = (nodes.clone(), (n0.to_string(), n1.to_string()));
        let setup = run_task(&mut env, 20_000, async move {
            let a = spawn_node(0, &names.0, "cookie", None).await;
            let b = spawn_node(1, &names.1, "cookie", None).await;
            nodes2.lock().unwrap().extend([Arc::new(a), Arc::new(b)]);
        })
        .await;
        let mut res = DupResult { end: DriveEnd::Done, quiet: false, listed: [vec![], vec![]], ready_live: [vec![], vec![]], events: [vec![], vec![]], link_cut: vec![], link_dead: vec![], trace: vec![], mid: vec![] };
        if let Err(e) = setup {
            res.end = e;
            return res;
        }
        let ns: Vec<Arc<Node>> = nodes.lock().unwrap().clone();
        let peer_names = [n1.to_string(), n0.to_string()]; // what an impostor dialing node i claims
        // phases separated by Settle
        let mut phase: Vec<(usize, DOp)> = vec![];
        let mut phases: Vec<Vec<(usize, DOp)>> = vec![];
        for (i, op) in case.ops.iter().enumerate() {
            if *op == DOp::Settle {
                phases.push(std::mem::take(&mut phase));
            } else {
                phase.push((i, op.clone()));
            }
        }
        phases.push(phase);
        let n_phases = phases.len();
        for (pi, ph) in phases.into_iter().enumerate() {
            let (ns2, links2, specs, pn) = (ns.clone(), links.clone(), case.links.clone(), peer_names.clone());
            let last_idx = ph.last().map(|x| x.0).unwrap_or(0);
            let r = run_task(&mut env, 60_000, async move {
                for (_i, op) in ph {
                    match op {
                        DOp::Open { link, side } => {
                            let (l, s) = (link as usize, side as usize);
                            let initiator = if specs[l].from0 { 0 } else { 1 };
                            let is_server = initiator != s;
                            if !is_server {
                                let nonce = NONCES[specs[l].nonce as usize % NONCES.len()];
                                ractor_cluster::verif::push_connection_nonce(nonce);
                            }
                            log(Ev::Note(format!("open link {l} at node {s} (server={is_server})")));
                            ns2[s].open(links2[l].end(s), is_server);
                        }
                        DOp::Yield => crate::gate::yield_once().await,
                        DOp::Settle => {}
                        DOp::Spoof { node, nonce, stage } => {
                            let nd = node as usize % 2;
                            let sl = Link::new("S");
                            let peer = sl.raw(1);
                            log(Ev::Note(format!("impostor dials node {nd} claiming {} stage {stage}", pn[nd])));
                            ns2[nd].open(sl.end(0), true);
                            let name = auth::NameMessage { name: pn[nd].clone(), flags: flags(), connection_string: "impostor:1".to_string(), connection_id: NONCES[nonce as usize % NONCES.len()] };
                            peer.send(&m_auth(auth::authentication_message::Msg::Name(name)));
                            match stage % 3 {
                                0 => {}
                                1 => {
                                    let mut ch = None;
                                    for _ in 0..6 {
                                        let _ = tokio::time::timeout(std::time::Duration::from_millis(20), peer.readable()).await;
                                        for f in peer.recv() {
                                            if let Some(meta::network_message::Message::Auth(a)) = f.message {
                                                if let Some(auth::authentication_message::Msg::ServerChallenge(c)) = a.msg {
                                                    ch = Some(c.challenge);
                                                }
                                            }
                                        }
                                        if ch.is_some() || peer.node_hung_up() {
                                            break;
                                        }
                                    }
                                    if let Some(c) = ch {
                                        peer.send(&m_auth(auth::authentication_message::Msg::ClientChallenge(auth::ChallengeReply { challenge: 1, digest: sha_digest("not the cookie", c) })));
                                    }
                                }
                                _ => {
                                    crate::gate::yield_once().await;
                                    peer.hang_up();
                                }
                            }
                            // a stalled impostor keeps its connection open for the rest of the case
                            std::mem::forget(peer);
                        }
                    }
                }
            })
            .await;
            if let Err(e) = r {
                res.end = e;
                break;
            }
            let q = settle_quiet(&mut env, 60, 60).await;
            if !q {
                res.end = DriveEnd::Budget;
                break;
            }
            if pi + 1 < n_phases {
                let ns3 = ns.clone();
                if let Ok(l) = run_task(&mut env, 5_000, async move {
                    let mut out = vec![];
                    for n in ns3.iter() {
                        out.push(n.sessions().await.unwrap_or_default().into_iter().map(|s| s.peer_addr).collect::<Vec<_>>());
                    }
                    out
                })
                .await
                {
                    res.mid.push((last_idx, l[0].clone(), l[1].clone()));
                }
            }
            res.quiet = q;
        }
        if res.end == DriveEnd::Done {
            // pings flow for a while: nothing may change
            let _ = settle_quiet(&mut env, 2_500, 3).await;
            let ns3 = ns.clone();
            if let Ok(l) = run_task(&mut env, 5_000, async move {
                let mut out = vec![];
                for n in ns3.iter() {
                    out.push(n.sessions().await.unwrap_or_default().into_iter().map(|s| (s.peer_addr, s.is_server, s.actor.get_id())).collect::<Vec<_>>());
                }
                out
            })
            .await
            {
                res.listed = [l[0].clone(), l[1].clone()];
            } else {
                res.end = DriveEnd::Stuck;
            }
            for i in 0..2 {
                res.ready_live[i] = ns[i].ready_live().into_iter().map(|e| (e.peer_addr, e.actor)).collect();
                res.events[i] = ns[i].evts();
            }
            res.link_cut = links.iter().map(|l| l.is_cut()).collect();
            res.link_dead = links
                .iter()
                .map(|l| {
                    let g = l.st.lock().unwrap();
                    g.cut || (g.dirs[0].writer_gone && g.dirs[1].writer_gone)
                })
                .collect();
        }
        ractor_cluster::verif::clear_connection_nonces();
        let tr = take_trace();
        if want_trace {
            res.trace = fmt_trace(&tr);
        }
        res
    })
}

fn link_of(peer_addr: &str) -> String {
    peer_addr.split(':').next().unwrap_or("").to_string()
}

fn judge_dup(case: &DupCase, r: &DupResult) -> Result<(bool, Vec<String>), Violation> {
    let mut labels = vec![];
    let desc = || format!("links {:?} ops {:?}", case.links.iter().map(|l| (l.from0, NONCES[l.nonce as usize % NONCES.len()])).collect::<Vec<_>>(), case.ops);
    // intermediate quiescent points: both ends list the same single link
    for (after, a, b) in &r.mid {
        let (la, lb): (Vec<String>, Vec<String>) = (a.iter().map(|x| link_of(x)).collect(), b.iter().map(|x| link_of(x)).collect());
        // which links had both ends opened by then
        let complete: Vec<usize> = (0..case.links.len())
            .filter(|l| (0..2).all(|s| case.ops.iter().take(after + 1).any(|op| *op == DOp::Open { link: *l as u8, side: s })))
            .collect();
        if complete.is_empty() {
            if !la.is_empty() || !lb.is_empty() {
                return Err(viol("C18/listed-without-link", format!("after op {after} no link has both ends open but sessions are listed: {la:?} / {lb:?}")));
            }
            continue;
        }
        if la.len() != 1 || lb.len() != 1 || la != lb {
            return Err(viol("C18/not-converged", format!("at the quiescent point after op {after}: node 0 lists {la:?}, node 1 lists {lb:?} (complete links {complete:?}); {}", desc())));
        }
    }
    let l0: Vec<String> = r.listed[0].iter().map(|x| link_of(&x.0)).collect();
    let l1: Vec<String> = r.listed[1].iter().map(|x| link_of(&x.0)).collect();
    if l0.len() != 1 || l1.len() != 1 {
        return Err(viol("C18/not-converged", format!("at quiescence node 0 lists {l0:?}, node 1 lists {l1:?} — expected exactly one session each; {}", desc())));
    }
    if l0 != l1 {
        return Err(viol("C18/different-links", format!("node 0 kept link {l0:?}, node 1 kept link {l1:?}; {}", desc())));
    }
    if !l0[0].starts_with('L') {
        return Err(viol("C18/impostor-kept", format!("the surviving session is the impostor's: {l0:?}")));
    }
    let kept: usize = l0[0][1..].parse().unwrap_or(usize::MAX);
    for (i, dead) in r.link_dead.iter().enumerate() {
        if i != kept && !dead {
            return Err(viol("C18/rest-not-closed", format!("link {i} lost the election (link {kept} kept) but is still open at quiescence; {}", desc())));
        }
        if i == kept && *dead {
            return Err(viol("C18/kept-link-dead", format!("both nodes list link {kept} but the link is closed")));
        }
    }
    for n in 0..2 {
        let rl: Vec<String> = r.ready_live[n].iter().map(|x| link_of(&x.0)).collect();
        if rl != vec![l0[0].clone()] {
            return Err(viol("C18/ready-events", format!("node {n}: sessions reported ready and not disconnected: {rl:?}, expected exactly [{}]; {}", l0[0], desc())));
        }
        // the impostor's session must never be reported authenticated or ready
        if r.events[n].iter().any(|e| e.peer_addr.starts_with("S:") && matches!(e.kind, EvKind::Authenticated | EvKind::Ready)) {
            return Err(viol("C18/impostor-authenticated", format!("node {n} reported the impostor's session authenticated/ready")));
        }
    }
    if case.links.len() >= 2 {
        labels.push(format!("links-{}", case.links.len()));
    }
    let both_dirs = case.links.iter().any(|l| l.from0) && case.links.iter().any(|l| !l.from0);
    if both_dirs {
        labels.push("simultaneous".to_string());
    }
    let nonce_vals: Vec<u64> = case.links.iter().map(|c| NONCES[c.nonce as usize % NONCES.len()]).collect();
    if nonce_vals.iter().any(|x| *x == 0 || nonce_vals.iter().filter(|y| *y == x).count() > 1) {
        labels.push("nonce-tie-or-legacy".to_string());
    }
    if case.ops.iter().any(|o| matches!(o, DOp::Spoof { .. })) {
        labels.push("impostor".to_string());
    }
    if !r.mid.is_empty() {
        labels.push("late-dial".to_string());
    }
    Ok((case.links.len() >= 2, labels))
}

impl Part for C18Dup {
    type Case = DupCase;
    const PROP: &'static str = "C18";
    const PART: &'static str = "e3-duplicates";
    fn cases(tier: Tier) -> u32 {
        match tier {
            Tier::Quick => 30_000,
            Tier::Thorough => 2_000_000,
        }
    }
    fn strategy(tier: Tier) -> BoxedStrategy<DupCase> {
        dup_strategy(tier)
    }
    fn run(case: &DupCase, want_trace: bool) -> Outcome {
        let r = run_dup(case, want_trace);
        let trace = r.trace.clone();
        match r.end {
            DriveEnd::Budget => return Outcome { verdict: Verdict::Inconclusive("step budget / never quiet".into()), nontrivial: false, labels: vec![], trace },
            DriveEnd::Stuck => return Outcome { verdict: Verdict::Inconclusive("script stuck".into()), nontrivial: false, labels: vec![], trace },
            DriveEnd::Done => {}
        }
        match judge_dup(case, &r) {
            Err(v) => Outcome { verdict: Verdict::Fail(v), nontrivial: false, labels: vec![], trace },
            Ok((nt, labels)) => Outcome { verdict: Verdict::Pass, nontrivial: nt, labels, trace },
        }
    }
    fn rule() -> &'static str {
        "two real NodeServers (seven name pairs) in one process joined by 1-3 (quick) / 1-4 (thorough) in-memory links, each with a generated initiator, a generated nonce from {legacy 0, 1, 2, 3, u64::MAX} (hook: nonce override) and generated read fragmentation per direction; the 2k open events, yields and 'settle' points (later re-dials) come in generated order, a generated task schedule interleaves the two handshakes, and in 35% of the cases an impostor dials one node claiming the other's name with a generated nonce (stalls, answers with a wrong-cookie digest, or hangs up); oracle at every quiescent point: both nodes list exactly one authenticated session and it is the same physical link, all other links are closed, the set of sessions reported ready and not disconnected is exactly that session on both nodes, the impostor is never authenticated/ready/kept; non-trivial = at least two links"
    }
}
