#!/bin/bash
# usage: fuzz_replay.sh <frame_reader|derive_decode> <artifact file> — re-executes one saved input
cd /verif/fuzzing && CARGO_NET_OFFLINE=true cargo +nightly fuzz run "$1" "$2" 2>&1 | grep -a -E "C19:|panicked at|ERROR: libFuzzer|Executed" ; st=${PIPESTATUS[0]}
if [ $st -ne 0 ]; then echo "VIOLATION property=C19 replay=$2"; exit 1; fi
echo PASS; exit 0
