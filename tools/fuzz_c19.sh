#!/bin/bash
# usage: fuzz_c19.sh <runs-per-target>   (VERIF_SEED honoured)
# E4 stage of the C19 thorough tier: coverage-guided campaigns of the two cargo-fuzz targets
# (oracles inside the targets). Exit 0 = nothing found, 1 = VIOLATION (artifact saved as the
# replay file), 2 = could not build / run.
set -u
RUNS="${1:-2000000}"; SEED="${VERIF_SEED:-1}"; [ "$SEED" = 0 ] && SEED=1
export CARGO_NET_OFFLINE=true
cd /verif/fuzzing || exit 2
cp -f /verif/harness/Cargo.lock fuzz/Cargo.lock
LOG=$(mktemp)
if ! cargo +nightly fuzz build >"$LOG" 2>&1; then echo "FUZZ-BUILD-FAILED"; tail -30 "$LOG"; rm -f "$LOG"; exit 2; fi
rm -f "$LOG"
WORK=/verif/fuzzing/work; rm -rf "$WORK"; mkdir -p "$WORK" /verif/replays
/verif/harness/target/release/rv fuzz-seeds "$WORK/seeds" || exit 2
rc=0; SUMMARY=""
for T in frame_reader derive_decode; do
  mkdir -p "$WORK/corpus-$T" "$WORK/artifacts-$T"
  cp "$WORK/seeds/$T"/* "$WORK/corpus-$T"/ 2>/dev/null
  MAXLEN=4096; [ "$T" = derive_decode ] && MAXLEN=600
  OUT="$WORK/$T.log"
  # 4 parallel jobs with different seeds share the corpus
  cargo +nightly fuzz run "$T" "$WORK/corpus-$T" -- -runs="$RUNS" -seed="$SEED" -len_control=0 -max_len=$MAXLEN -artifact_prefix="$WORK/artifacts-$T/" -print_final_stats=1 >"$OUT" 2>&1
  st=$?
  execs=$(grep -a "stat::number_of_executed_units" "$OUT" | awk '{print $2}' | tail -1)
  cov=$(grep -a " cov: " "$OUT" | tail -1 | sed 's/.*cov: \([0-9]*\).*/\1/')
  corp=$(ls "$WORK/corpus-$T" | wc -l)
  SUMMARY="$SUMMARY $T:execs=${execs:-0}:cov=${cov:-0}:corpus=$corp"
  art=$(ls "$WORK/artifacts-$T"/ 2>/dev/null | head -1)
  if [ -n "$art" ]; then
    dest="/verif/replays/C19-fuzz-$T-$art"
    cp "$WORK/artifacts-$T/$art" "$dest"
    echo "violation detail: C19/fuzz-$T — $(grep -a -m1 -E 'C19:|panicked at|ERROR: libFuzzer' "$OUT" | cut -c1-300) (replay: /verif/tools/fuzz_replay.sh $T $dest)"
    echo "VIOLATION property=C19 replay=$dest"
    rc=1
  elif [ $st -ne 0 ]; then
    echo "FUZZ-RUN-FAILED target=$T status=$st"; tail -5 "$OUT"; [ $rc -eq 0 ] && rc=2
  fi
done
echo "C19 fuzz stage:$SUMMARY runs-per-target=$RUNS seed=$SEED"
# merge into the evidence file written by the property-based stage
python3 - "$SUMMARY" "$RUNS" <<'PY'
import json,sys
p='/verif/evidence/C19.json'
try: e=json.load(open(p))
except Exception: sys.exit(0)
f={}
for item in sys.argv[1].split():
    t,ex,cov,corp=item.split(':')
    f[t]={"executions":int(ex.split('=')[1] or 0),"edge_coverage":int(cov.split('=')[1] or 0),"corpus_files":int(corp.split('=')[1])}
e['coverage']['fuzz']={"engine":"cargo-fuzz 0.13 / libFuzzer, oracle inside the targets (differential against an independent splitter; no escaping panic; re-encode/re-decode)","targets":f,"runs_per_target":int(sys.argv[2])}
e['coverage']['evaluations']=e['coverage'].get('evaluations',0)+sum(v['executions'] for v in f.values())
json.dump(e,open(p,'w'),indent=1)
PY
exit $rc
