//! E1: task-schedule gate over a paused-clock current-thread tokio runtime.
//!
//! Every task spawned through `ractor::concurrency::spawn*` while a gate is installed
//! is wrapped in `ractor::verif::Gated`; it is polled only when the driver grants it a
//! permit, one inner poll at a time. The driver picks the next task from the runnable
//! set with the next byte of the generated schedule.

use std::collections::BTreeMap;
use std::future::Future;
use std::pin::Pin;
use std::sync::{Arc, Mutex};
use std::task::{Context, Poll, Wake, Waker};

use ractor::verif::TaskGate;

#[derive(Default)]
struct TaskSt {
    name: Option<String>,
    runnable: bool,
    exec_waker: Option<Waker>,
    polls: u64,
}

#[derive(Default)]
struct Inner {
    next_id: u64,
    tasks: BTreeMap<u64, TaskSt>,
    granted: Option<u64>,
    current: Option<u64>,
    step_done: bool,
    epoch: u64,
    driver_waker: Option<Waker>,
    step: u64,
    finished: Vec<u64>,
}

pub struct Gate {
    inner: Mutex<Inner>,
}

struct InnerWaker {
    gate: Arc<Gate>,
    id: u64,
}

impl Wake for InnerWaker {
    fn wake(self: Arc<Self>) {
        self.wake_by_ref()
    }
    fn wake_by_ref(self: &Arc<Self>) {
        let w = {
            let mut g = self.gate.inner.lock().unwrap();
            if let Some(t) = g.tasks.get_mut(&self.id) {
                t.runnable = true;
            }
            g.epoch += 1;
            g.driver_waker.take()
        };
        if let Some(w) = w {
            w.wake();
        }
    }
}

thread_local! {
    /// called right before a granted task is polled (after the executor processed whatever was
    /// pending, e.g. the drop of an aborted task)
    pub static PRE_POLL: std::cell::RefCell<Option<Box<dyn FnMut(u64, u64)>>> = const { std::cell::RefCell::new(None) };
}

pub struct GateHandle(pub Arc<Gate>);

impl TaskGate for GateHandle {
    fn register(&self, name: Option<&str>) -> u64 {
        let mut g = self.0.inner.lock().unwrap();
        let id = g.next_id;
        g.next_id += 1;
        g.tasks.insert(
            id,
            TaskSt {
                name: name.map(|s| s.to_string()),
                runnable: true,
                exec_waker: None,
                polls: 0,
            },
        );
        g.epoch += 1;
        id
    }

    fn permit(&self, id: u64, waker: &Waker) -> bool {
        let (pre, step) = {
            let g = self.0.inner.lock().unwrap();
            (g.granted == Some(id), g.step)
        };
        if pre {
            // take the hook out while it runs (it may log, sample statuses, ...)
            let hook = PRE_POLL.with(|h| h.borrow_mut().take());
            if let Some(mut f) = hook {
                f(step, id);
                PRE_POLL.with(|h| {
                    if h.borrow().is_none() {
                        *h.borrow_mut() = Some(f);
                    }
                });
            }
        }
        let mut g = self.0.inner.lock().unwrap();
        let granted = g.granted == Some(id);
        if granted {
            g.current = Some(id);
        }
        if let Some(t) = g.tasks.get_mut(&id) {
            // keep the executor's waker across polls: a later grant must be able to
            // re-schedule the task even though only our inner waker was handed out
            t.exec_waker = Some(waker.clone());
            if granted {
                t.runnable = false;
                t.polls += 1;
            }
        }
        granted
    }

    fn inner_waker(&self, id: u64) -> Waker {
        Waker::from(Arc::new(InnerWaker {
            gate: self.0.clone(),
            id,
        }))
    }

    fn polled(&self, id: u64, done: bool) {
        let w = {
            let mut g = self.0.inner.lock().unwrap();
            if g.granted == Some(id) {
                g.granted = None;
                g.step_done = true;
            }
            g.current = None;
            if done {
                g.tasks.remove(&id);
                g.finished.push(id);
            }
            g.epoch += 1;
            g.driver_waker.take()
        };
        if let Some(w) = w {
            w.wake();
        }
    }

    fn dropped(&self, id: u64) {
        let w = {
            let mut g = self.0.inner.lock().unwrap();
            if g.tasks.remove(&id).is_some() {
                g.finished.push(id);
            }
            if g.granted == Some(id) {
                g.granted = None;
                g.step_done = true;
            }
            if g.current == Some(id) {
                g.current = None;
            }
            g.epoch += 1;
            g.driver_waker.take()
        };
        if let Some(w) = w {
            w.wake();
        }
    }
}

impl Gate {
    pub fn new() -> Arc<Gate> {
        Arc::new(Gate {
            inner: Mutex::new(Inner::default()),
        })
    }

    pub fn install(self: &Arc<Self>) {
        ractor::verif::install_gate(Some(Arc::new(GateHandle(self.clone()))));
    }

    pub fn uninstall() {
        ractor::verif::install_gate(None);
    }

    /// ids of runnable tasks, ascending
    pub fn runnable(&self) -> Vec<u64> {
        let g = self.inner.lock().unwrap();
        g.tasks
            .iter()
            .filter(|(_, t)| t.runnable)
            .map(|(id, _)| *id)
            .collect()
    }

    pub fn live(&self) -> Vec<u64> {
        self.inner.lock().unwrap().tasks.keys().copied().collect()
    }

    pub fn is_live(&self, id: u64) -> bool {
        self.inner.lock().unwrap().tasks.contains_key(&id)
    }

    pub fn name_of(&self, id: u64) -> Option<String> {
        self.inner
            .lock()
            .unwrap()
            .tasks
            .get(&id)
            .and_then(|t| t.name.clone())
    }

    pub fn step(&self) -> u64 {
        self.inner.lock().unwrap().step
    }

    /// the task whose inner future is being polled right now
    pub fn current(&self) -> Option<u64> {
        self.inner.lock().unwrap().current
    }

    pub fn next_task_id(&self) -> u64 {
        self.inner.lock().unwrap().next_id
    }

    fn grant(&self, id: u64) {
        let w = {
            let mut g = self.inner.lock().unwrap();
            g.granted = Some(id);
            g.step_done = false;
            g.step += 1;
            g.tasks.get(&id).and_then(|t| t.exec_waker.clone())
        };
        if let Some(w) = w {
            w.wake();
        }
    }

    fn wait_step_done(self: &Arc<Self>) -> WaitStep {
        WaitStep { gate: self.clone() }
    }

    fn wait_change(self: &Arc<Self>, seen: u64) -> WaitChange {
        WaitChange {
            gate: self.clone(),
            seen,
        }
    }

    fn epoch(&self) -> u64 {
        self.inner.lock().unwrap().epoch
    }
}

struct WaitStep {
    gate: Arc<Gate>,
}
impl Future for WaitStep {
    type Output = ();
    fn poll(self: Pin<&mut Self>, cx: &mut Context<'_>) -> Poll<()> {
        let mut g = self.gate.inner.lock().unwrap();
        if g.step_done {
            Poll::Ready(())
        } else {
            g.driver_waker = Some(cx.waker().clone());
            Poll::Pending
        }
    }
}

struct WaitChange {
    gate: Arc<Gate>,
    seen: u64,
}
impl Future for WaitChange {
    type Output = ();
    fn poll(self: Pin<&mut Self>, cx: &mut Context<'_>) -> Poll<()> {
        let mut g = self.gate.inner.lock().unwrap();
        if g.epoch != self.seen {
            Poll::Ready(())
        } else {
            g.driver_waker = Some(cx.waker().clone());
            Poll::Pending
        }
    }
}

/// Yield exactly once to the gate (one atomic step boundary)
pub struct YieldOnce(bool);
pub fn yield_once() -> YieldOnce {
    YieldOnce(false)
}
impl Future for YieldOnce {
    type Output = ();
    fn poll(mut self: Pin<&mut Self>, cx: &mut Context<'_>) -> Poll<()> {
        if self.0 {
            Poll::Ready(())
        } else {
            self.0 = true;
            cx.waker().wake_by_ref();
            Poll::Pending
        }
    }
}

/// The schedule: a byte string consumed one byte per scheduling decision
pub struct Schedule {
    bytes: Vec<u8>,
    pos: usize,
    /// global step budget of the case (livelock guard)
    pub steps_left: u64,
    /// when set, a schedule byte of 255 advances the paused clock by 1 ms while tasks are
    /// still runnable ("execution takes time")
    pub jitter: bool,
    pub advances: Vec<u64>,
    pub decisions: u64,
    pub nonzero_choices: u64,
}

impl Schedule {
    pub fn new(bytes: Vec<u8>) -> Self {
        Self {
            bytes,
            pos: 0,
            steps_left: 6_000,
            jitter: false,
            advances: vec![],
            decisions: 0,
            nonzero_choices: 0,
        }
    }
    /// 255 = a 1 ms hiccup, 254 = a 7 ms stall
    fn peek_jitter(&mut self) -> Option<u64> {
        if self.jitter && self.pos < self.bytes.len() && self.bytes[self.pos] >= 254 {
            let ms = if self.bytes[self.pos] == 255 { 1 } else { 7 };
            self.pos += 1;
            Some(ms)
        } else {
            None
        }
    }
    fn next(&mut self, len: usize) -> usize {
        let b = if self.pos < self.bytes.len() {
            let b = self.bytes[self.pos];
            self.pos += 1;
            b
        } else {
            0
        };
        let idx = (b as usize * len) >> 8;
        if len > 1 {
            self.decisions += 1;
            if idx != 0 {
                self.nonzero_choices += 1;
            }
        }
        idx
    }
}

#[derive(Debug, Clone, Copy, PartialEq, Eq)]
pub enum DriveEnd {
    /// the stop condition became true
    Done,
    /// nothing runnable, nothing woke up before the virtual horizon
    Stuck,
    /// step budget exhausted (livelock guard) — inconclusive, never a violation by itself
    Budget,
}

pub const HORIZON: std::time::Duration = std::time::Duration::from_secs(3600);

/// Drive gated tasks until `done()` holds. `after_step` runs after every step.
pub async fn drive(
    gate: &Arc<Gate>,
    sched: &mut Schedule,
    max_steps: u64,
    mut done: impl FnMut() -> bool,
    mut after_step: impl FnMut(u64, u64),
) -> DriveEnd {
    let on_advance = |ns: u64| crate::core::log(crate::core::Ev::Note(format!("advance {ns}")));
    let mut steps = 0u64;
    loop {
        if done() {
            return DriveEnd::Done;
        }
        if steps >= max_steps || sched.steps_left == 0 {
            return DriveEnd::Budget;
        }
        let runnable = gate.runnable();
        if runnable.is_empty() {
            let seen = gate.epoch();
            // re-check under the same epoch: a wake between runnable() and epoch() bumps it
            if !gate.runnable().is_empty() {
                continue;
            }
            match tokio::time::timeout(HORIZON, gate.wait_change(seen)).await {
                Ok(()) => continue,
                Err(_) => {
                    if done() {
                        return DriveEnd::Done;
                    }
                    return DriveEnd::Stuck;
                }
            }
        }
        if let Some(ms) = sched.peek_jitter() {
            let before = tokio::time::Instant::now();
            tokio::time::advance(std::time::Duration::from_millis(ms)).await;
            sched.advances.push(ms);
            on_advance(before.elapsed().as_nanos() as u64);
            continue;
        }
        let pick = runnable[sched.next(runnable.len())];
        gate.grant(pick);
        gate.wait_step_done().await;
        steps += 1;
        sched.steps_left -= 1;
        after_step(gate.step(), pick);
    }
}
