pub mod c01;
pub mod c03;
pub mod c02;
pub mod c04;
pub mod c06;
pub mod c09;
pub mod c12;
pub mod c08;
