//! C12 — timers fire once, never early, and die with their target (E1, virtual clock)

use std::collections::HashMap;

use proptest::prelude::*;
use serde::{Deserialize, Serialize};

use crate::core::*;
use crate::gate::DriveEnd;
use crate::gen;
use crate::runner::*;

pub struct C12;

#[derive(Clone, Debug, Serialize, Deserialize)]
pub struct Case {
    pub sc: Scenario,
    /// advance the clock while tasks are runnable (schedule byte 255): "execution takes time"
    pub jitter: bool,
}

const S: u8 = 0;
const T: u8 = 1;
const MS: u64 = 1_000_000;
/// tokio's timer wheel has millisecond resolution: a deadline is rounded up to the next ms
const GRAN: u64 = 999_999;

/// sub-millisecond part of a period
fn us() -> BoxedStrategy<u16> {
    prop_oneof![3 => Just(0u16), 1 => 1u16..1000].boxed()
}

pub fn strategy(tier: Tier) -> BoxedStrategy<Case> {
    let max_sched = if tier == Tier::Quick { 160 } else { 320 };
    let timer = prop_oneof![
        4 => (0u16..50, any::<bool>(), us()).prop_map(|(ms, derived, us)| Op::SendAfter { to: T, ms, derived, us }),
        4 => (1u16..50, any::<bool>(), us()).prop_map(|(ms, derived, us)| Op::SendInterval { to: T, ms, derived, us }),
        1 => (0u16..50, us(), prop::bool::weighted(0.3)).prop_map(|(ms, us, derived)| Op::ExitAfter { to: T, ms, us, derived }),
        1 => (0u16..50, us(), prop::bool::weighted(0.3)).prop_map(|(ms, us, derived)| Op::KillAfter { to: T, ms, us, derived }),
    ];
    let timer_client = proptest::collection::vec((0u16..20, timer), 1..=3).prop_map(|v| {
        let mut out = vec![];
        for (d, t) in v {
            if d > 0 {
                out.push(Op::Sleep(d));
            }
            out.push(t);
        }
        out
    });
    let aborter = proptest::collection::vec((0u16..60, gen::idx(4)), 0..=3).prop_map(|v| {
        let mut out = vec![];
        for (d, k) in v {
            out.push(Op::Sleep(d));
            out.push(Op::AbortTimer(k));
        }
        out
    });
    let exiter = prop_oneof![
        3 => Just(vec![]),
        2 => (0u16..70).prop_map(|d| vec![Op::Sleep(d), Op::Stop(T)]),
        2 => (0u16..70).prop_map(|d| vec![Op::Sleep(d), Op::Kill(T)]),
        1 => (0u16..70).prop_map(|d| vec![Op::Sleep(d), Op::Drain(T)]),
    ];
    let noise = proptest::collection::vec(prop_oneof![(0u16..30).prop_map(Op::Sleep), Just(Op::Yield), (0u32..50).prop_map(|seq| Op::Cast { to: T, seq })], 0..=6);
    (
        proptest::collection::vec(timer_client, 1..=2),
        aborter,
        exiter,
        noise,
        proptest::collection::vec(prop_oneof![2 => Just(Act::Yield), 1 => (0u16..8).prop_map(Act::Sleep)], 0..=2),
        any::<bool>(),
        gen::schedule(max_sched),
    )
        .prop_map(|(timers, aborter, exiter, noise, hscript, jitter, mut schedule)| {
            if jitter {
                // make the jitter byte frequent enough to matter
                for (i, b) in schedule.iter_mut().enumerate() {
                    if i % 5 == 4 && *b > 128 {
                        *b = if *b > 230 { 254 } else { 255 };
                    }
                }
            } else {
                for b in schedule.iter_mut() {
                    if *b >= 254 {
                        *b = 253;
                    }
                }
            }
            let sup = ActorSpec { variant: Some(Variant::Spawn), sup_stops: false, ..Default::default() };
            let tgt = ActorSpec { variant: Some(Variant::Linked), parent: Some(S), handle: vec![hscript], ..Default::default() };
            let mut clients = vec![vec![Op::Spawn(S), Op::Spawn(T)]];
            clients.extend(timers);
            clients.push(aborter);
            clients.push(exiter);
            clients.push(noise);
            clients.push(vec![Op::Sleep(160), Op::Kill(T)]);
            clients.push(vec![Op::Sleep(400), Op::AwaitTimer(0), Op::AwaitTimer(1), Op::AwaitTimer(2), Op::AwaitTimer(3), Op::AwaitTimer(4), Op::AwaitTimer(5)]);
            Case { sc: Scenario { specs: vec![sup, tgt], clients, schedule }, jitter }
        })
        .boxed()
}

struct Timer {
    op: Op,
    t0: u64,
    pos0: usize,
    fires: Vec<(usize, u64, u32)>,
    abort: Option<(usize, u64)>,
    awaited: Option<Res>,
}

pub fn check(case: &Case, ex: &Exec) -> Result<(bool, Vec<String>), Violation> {
    let sc = &case.sc;
    let tr = &ex.trace;
    let op_of = |c: usize, i: usize| sc.clients.get(c).and_then(|ops| ops.get(i));
    let mut timers: HashMap<usize, Timer> = HashMap::new();
    // (virtual time after the advance, amount in ns)
    let mut advances: Vec<(u64, u64)> = vec![];
    let mut labels = vec![];
    // target leaves the active states (sampled) / first sampled Stopped
    let mut te: Option<u64> = None;
    let mut t_stopped: Option<u64> = None;
    let mut kill_causes: Vec<u64> = vec![];
    for (pos, e) in tr.iter().enumerate() {
        match &e.ev {
            Ev::Note(n) if n.starts_with("advance ") => advances.push((e.t_ns, n[8..].parse().unwrap_or(MS))),
            Ev::Note(n) if n.starts_with("fire ") => {
                let mut it = n.split(' ').skip(1);
                let tid: usize = it.next().unwrap().parse().unwrap();
                let k: u32 = it.next().unwrap().parse().unwrap();
                match timers.get_mut(&tid) {
                    Some(t) => t.fires.push((pos, e.t_ns, k)),
                    None => return Err(viol("C12/fire-before-created", format!("timer {tid} fired at #{pos} before its creating call returned"))),
                }
            }
            Ev::Status { a, st } if *a == T as usize => {
                if *st >= 4 && te.is_none() {
                    te = Some(e.t_ns);
                }
                if *st >= 6 && t_stopped.is_none() {
                    t_stopped = Some(e.t_ns);
                }
            }
            Ev::OpStart { c, i } => match op_of(*c, *i) {
                Some(Op::Kill(T)) => kill_causes.push(e.t_ns),
                _ => {}
            },
            Ev::OpEnd { c, i, res } => match (op_of(*c, *i), res) {
                (Some(op @ (Op::SendAfter { .. } | Op::SendInterval { .. } | Op::ExitAfter { .. } | Op::KillAfter { .. })), Res::Found(tid)) => {
                    if let Op::KillAfter { ms, us, .. } = op {
                        kill_causes.push(e.t_ns + *ms as u64 * MS + *us as u64 * 1000);
                    }
                    timers.insert(*tid as usize, Timer { op: op.clone(), t0: e.t_ns, pos0: pos, fires: vec![], abort: None, awaited: None });
                }
                (Some(Op::AbortTimer(k)), Res::Ok) => {
                    if let Some(t) = timers.get_mut(&(*k as usize)) {
                        if t.abort.is_none() {
                            t.abort = Some((pos, e.t_ns));
                        }
                    }
                }
                (Some(Op::AwaitTimer(k)), r) if *r != Res::Skipped => {
                    if let Some(t) = timers.get_mut(&(*k as usize)) {
                        t.awaited = Some(r.clone());
                    }
                }
                _ => {}
            },
            _ => {}
        }
    }
    // injected delay (ns) that can have hit a deadline in (lo, hi]: an advance that ended inside the window
    let adv_in = |lo: u64, hi: u64| advances.iter().filter(|(t, _)| *t > lo && *t <= hi).map(|(_, a)| *a).sum::<u64>();
    let complete = ex.end_main == DriveEnd::Done;
    let mut nontrivial = false;
    for (tid, t) in &timers {
        let sender = TIMER_SENDER_BASE + *tid as u16;
        let handled = tr.iter().filter(|e| matches!(&e.ev, Ev::Enter { a, cb: Cb::Handle, tag: Tag::Num { sender: s, .. } } if *a == T as usize && *s == sender)).count();
        if handled > t.fires.len() {
            return Err(viol("C12/delivered-more-than-fired", format!("timer {tid}: {handled} messages handled but the message closure ran {} times", t.fires.len())));
        }
        match &t.op {
            Op::SendAfter { ms, us, .. } => {
                let p = *ms as u64 * MS + *us as u64 * 1000;
                let deadline = t.t0 + p;
                if t.fires.len() > 1 {
                    return Err(viol("C12/one-shot-fired-twice", format!("send_after timer {tid} fired {} times", t.fires.len())));
                }
                for (pos, ft, _) in &t.fires {
                    if *ft < deadline {
                        return Err(viol("C12/fired-early", format!("send_after({ms}ms) created at t={} fired at t={ft} (#{pos})", t.t0)));
                    }
                    let late_ok = adv_in(t.t0, *ft);
                    if *ft > deadline + late_ok + GRAN {
                        return Err(viol("C12/fired-late", format!("send_after({ms}ms) created at t={} fired at t={ft}, {}ns late with only {late_ok}ns of injected delay", t.t0, ft - deadline)));
                    }
                    if let Some((apos, at)) = t.abort {
                        if apos < *pos && at < *ft {
                            return Err(viol("C12/fired-after-abort", format!("send_after timer {tid} aborted at t={at} but fired at t={ft}")));
                        }
                    }
                }
                if complete {
                    let aborted_before = t.abort.map_or(false, |(_, at)| at <= deadline + adv_in(t.t0, at.max(deadline)) + GRAN);
                    if t.fires.is_empty() && !aborted_before {
                        return Err(viol("C12/one-shot-never-fired", format!("send_after({ms}ms) timer {tid} was not aborted before its deadline but never fired")));
                    }
                    // result through the handle
                    match (&t.awaited, t.fires.first()) {
                        (Some(Res::Ok), None) => return Err(viol("C12/ok-without-fire", format!("send_after timer {tid}: handle resolved Ok(Ok) but the message was never produced"))),
                        (Some(Res::Ok), Some((_, ft, _))) => {
                            if t_stopped.map_or(false, |ts| ts < *ft) {
                                return Err(viol("C12/sent-to-dead-target", format!("send_after timer {tid} reported a successful send at t={ft} although the target was Stopped at t={}", t_stopped.unwrap())));
                            }
                        }
                        (Some(Res::SendErr), Some((_, ft, _))) => {
                            if handled != 0 {
                                return Err(viol("C12/send-error-but-delivered", format!("send_after timer {tid} reported SendErr but its message was handled")));
                            }
                            if te.map_or(true, |x| x > *ft) {
                                return Err(viol("C12/send-error-to-live-target", format!("send_after timer {tid} reported SendErr at t={ft} while the target was still active")));
                            }
                            labels.push("send_after-dead-target".into());
                        }
                        (Some(Res::Err(e)), _) if e == "cancelled" => {
                            if t.abort.is_none() {
                                return Err(viol("C12/cancelled-without-abort", format!("send_after timer {tid} handle is cancelled but nobody aborted it")));
                            }
                        }
                        (Some(other), f) => return Err(viol("C12/unexpected-handle-result", format!("send_after timer {tid}: {other:?} fires={f:?}"))),
                        (None, _) => {}
                    }
                }
                if let Some((_, at)) = t.abort {
                    if at + 2 * MS >= deadline && at <= deadline + 2 * MS {
                        nontrivial = true;
                    }
                }
                if let Some(x) = te {
                    if x + p >= deadline && x <= deadline + p {
                        nontrivial = true;
                    }
                }
            }
            Op::SendInterval { ms, us, .. } => {
                let p = (*ms).max(1) as u64 * MS + *us as u64 * 1000;
                let mut first: Option<u64> = None;
                let late1_max = t.fires.first().map(|(_, ft, _)| adv_in(t.t0, *ft)).unwrap_or(0);
                for (idx, (pos, ft, k)) in t.fires.iter().enumerate() {
                    let kk = idx as u64 + 1;
                    if *k as u64 != kk {
                        return Err(viol("C12/harness-fire-order", format!("interval {tid}: fire #{idx} carries k={k}")));
                    }
                    if *ft < t.t0 + kk * p {
                        return Err(viol("C12/fired-early", format!("send_interval({ms}ms) created at t={}: tick {kk} at t={ft} (#{pos})", t.t0)));
                    }
                    let upper = match first {
                        None => t.t0 + p + adv_in(t.t0, *ft) + GRAN,
                        Some(f1) => {
                            let d = f1 + (kk - 1) * p;
                            d + adv_in(d.saturating_sub(late1_max + GRAN), *ft) + GRAN
                        }
                    };
                    if *ft > upper {
                        return Err(viol(
                            "C12/interval-drift",
                            format!("send_interval({ms}ms) created at t={}: tick {kk} at t={ft}, later than its deadline allows ({upper}) — ticks: {:?}", t.t0, t.fires.iter().map(|f| f.1).collect::<Vec<_>>()),
                        ));
                    }
                    if first.is_none() {
                        first = Some(*ft);
                    }
                    if let Some((apos, at)) = t.abort {
                        if apos < *pos && at < *ft {
                            return Err(viol("C12/fired-after-abort", format!("interval {tid} aborted at t={at} but ticked at t={ft}")));
                        }
                    }
                    if let Some(x) = te {
                        if *ft > x + p + adv_in(x, *ft) + GRAN {
                            return Err(viol("C12/interval-outlives-target", format!("interval {tid} ({ms}ms) ticked at t={ft} although its target left the running states at t={x}")));
                        }
                    }
                }
                // no missed ticks while the target was active and the timer not aborted (exact mode only)
                if !case.jitter && complete {
                    let horizon = [te, t.abort.map(|a| a.1)].into_iter().flatten().min();
                    if let Some(h) = horizon {
                        if h > t.t0 {
                            let expected = (h - t.t0 - 1).saturating_sub(GRAN) / p; // ticks due (incl. timer granularity) strictly before the horizon
                            if (t.fires.len() as u64) < expected {
                                return Err(viol("C12/interval-missed-ticks", format!("interval {tid} ({ms}ms) created at t={} ticked {} times before t={h}, expected at least {expected}", t.t0, t.fires.len())));
                            }
                        }
                    }
                }
                if complete {
                    match &t.awaited {
                        Some(Res::Ok) => {}
                        Some(Res::Err(e)) if e == "cancelled" && t.abort.is_some() => {}
                        Some(other) => return Err(viol("C12/unexpected-handle-result", format!("interval {tid}: {other:?}"))),
                        None => {}
                    }
                }
                if t.fires.len() >= 2 {
                    if let Some(x) = te.or(t.abort.map(|a| a.1)) {
                        if t.fires.iter().any(|f| f.1 + p >= x && f.1 <= x + p) {
                            nontrivial = true;
                        }
                    }
                }
            }
            Op::ExitAfter { .. } | Op::KillAfter { .. } => {}
            _ => {}
        }
        let _ = t.pos0;
    }
    // exit_after / kill_after: reason and instant as seen by the supervisor
    for (pos, e) in tr.iter().enumerate() {
        if let Ev::Enter { a: 0, cb: Cb::Sup, tag: Tag::Terminated { who: 1, reason: Some(r), .. } } = &e.ev {
            if let Some(rest) = r.strip_prefix("Exit after ") {
                let ms: u64 = rest.trim_end_matches("ms").parse().unwrap_or(u64::MAX);
                let ok = timers.values().any(|t| match &t.op {
                    Op::ExitAfter { ms: m, us, .. } if *m as u64 == ms => {
                        let due = t.t0 + ms * MS + *us as u64 * 1000;
                        t_stopped.map_or(true, |ts| ts >= due) && e.t_ns >= due
                    }
                    _ => false,
                });
                if !ok {
                    return Err(viol("C12/exit_after-early-or-wrong-reason", format!("supervisor saw reason {r:?} at t={} (#{pos}); no exit_after timer explains it", e.t_ns)));
                }
                labels.push("exit_after-observed".into());
            }
            if r == "killed" {
                let earliest = kill_causes.iter().min().copied().unwrap_or(u64::MAX);
                if e.t_ns < earliest {
                    return Err(viol("C12/killed-early", format!("target reported killed at t={} before any kill was due (earliest {earliest})", e.t_ns)));
                }
            }
        }
    }
    if complete {
        // exit_after with nothing else stopping the target earlier must produce its reason
        for t in timers.values() {
            if let Op::ExitAfter { ms, us, .. } = &t.op {
                let due = t.t0 + *ms as u64 * MS + *us as u64 * 1000;
                let aborted = t.abort.map_or(false, |(_, at)| at <= due + adv_in(t.t0, due.max(at)) + GRAN);
                let other_first = te.map_or(false, |x| x < due) ;
                if !aborted && !other_first && !case.jitter {
                    let seen = tr.iter().any(|e| matches!(&e.ev, Ev::Enter { a: 0, cb: Cb::Sup, tag: Tag::Terminated { who: 1, reason: Some(r), .. } } if r.starts_with("Exit after ")));
                    let other_exit = sc.clients.iter().flatten().any(|o| matches!(o, Op::Stop(T) | Op::Drain(T) | Op::KillAfter { .. }) ) || timers.values().filter(|x| matches!(x.op, Op::ExitAfter { .. })).count() > 1;
                    let killed_first = kill_causes.iter().any(|k| t_stopped.map_or(true, |ts| *k <= ts));
                    if !seen && !other_exit && !killed_first {
                        return Err(viol("C12/exit_after-ignored", format!("exit_after({ms}ms) was due at t={due}, nothing else ended the target, but the supervisor never saw its reason")));
                    }
                }
            }
        }
    }
    if case.jitter {
        labels.push("jitter".into());
    }
    Ok((nontrivial, labels))
}

impl Part for C12 {
    type Case = Case;
    const PROP: &'static str = "C12";
    const PART: &'static str = "e1";
    fn cases(tier: Tier) -> u32 {
        match tier {
            Tier::Quick => 100_000,
            Tier::Thorough => 2_000_000,
        }
    }
    fn strategy(tier: Tier) -> BoxedStrategy<Case> {
        strategy(tier)
    }
    fn run(case: &Case, want_trace: bool) -> Outcome {
        let sampler = std::rc::Rc::new(std::cell::RefCell::new(StatusSampler::default()));
        let s2 = sampler.clone();
        let ex = exec_scenario(&case.sc, ExecOpts { jitter: case.jitter, ..Default::default() }, move |w, _, _| s2.borrow_mut().sample(w), |_| vec![]);
        let trace = if want_trace { fmt_trace(&ex.trace) } else { vec![] };
        if let Some(p) = &ex.client_panic {
            return Outcome { verdict: Verdict::Fail(viol("C12/client-panic", p.clone())), nontrivial: false, labels: vec![], trace };
        }
        match check(case, &ex) {
            Err(v) => Outcome { verdict: Verdict::Fail(v), nontrivial: false, labels: vec![], trace },
            Ok((nontrivial, labels)) => {
                if ex.end_main == DriveEnd::Budget || ex.end_sweep == DriveEnd::Budget {
                    return Outcome { verdict: Verdict::Inconclusive("step budget".into()), nontrivial: false, labels, trace };
                }
                if ex.end_main == DriveEnd::Stuck {
                    return Outcome { verdict: Verdict::Fail(viol("C12/timer-task-never-ends", "a timer task is still running long after its target died (the client awaiting its handle is stuck)")), nontrivial, labels, trace };
                }
                if ex.end_sweep == DriveEnd::Stuck {
                    return Outcome { verdict: Verdict::Fail(viol("C12/stuck-after-kill", "tasks blocked after the final sweep")), nontrivial, labels, trace };
                }
                Outcome { verdict: Verdict::Pass, nontrivial, labels, trace }
            }
        }
    }
    fn rule() -> &'static str {
        "generated timers (send_after incl. zero period, send_interval, exit_after, kill_after; ActorRef and DerivedActorRef variants) created at generated virtual instants against a supervised target, with generated aborts, target exits (stop/kill/drain) and competing tasks at the same instants; half of the cases additionally advance the paused clock while tasks are runnable (schedule byte 255) so that execution takes time; oracle = exact virtual-time arithmetic (deadline = creation + k*period, lateness bounded by the injected delay inside the tick's own window, no tick after abort, none later than one period after the target left the running states), handle results, supervisor-observed reasons; non-trivial = an abort or target exit within one period of an expiry"
    }
}
