//! Shared E1 machinery: trace, world, the scripted actor, client-op interpreter, case runner.

use std::cell::RefCell;
use std::collections::HashMap;
use std::future::Future;
use std::pin::Pin;
use std::sync::atomic::{AtomicU64, Ordering};
use std::sync::{Arc, Mutex};
use std::task::{Context, Poll};
use std::time::Duration;

use ractor::concurrency::JoinHandle;
use ractor::rpc::CallResult;
use ractor::thread_local::{ThreadLocalActor, ThreadLocalActorSpawner};
use ractor::{
    Actor, ActorCell, ActorId, ActorProcessingErr, ActorRef, ActorStatus, MessagingErr,
    RpcReplyPort, SpawnErr, SupervisionEvent,
};
use serde::{Deserialize, Serialize};

use crate::gate::{drive, yield_once, DriveEnd, Gate, Schedule};

// ---------------------------------------------------------------------------------
// Trace

#[derive(Clone, Copy, Debug, PartialEq, Eq, Hash, Serialize, Deserialize)]
pub enum Cb {
    PreStart,
    PostStart,
    Handle,
    Sup,
    PostStop,
}

#[derive(Clone, Debug, PartialEq, Eq, Serialize)]
pub enum Tag {
    None,
    Num { sender: u16, seq: u32 },
    Call { id: u32 },
    Probe,
    Fwd { v: u64 },
    Started { who: i64 },
    Terminated { who: i64, has_state: bool, reason: Option<String> },
    Failed { who: i64, text: String },
    Pg { join: bool, scope: String, group: String, who: Vec<i64> },
    Pid { spawn: bool, who: i64 },
}

#[derive(Clone, Debug, PartialEq, Eq, Serialize)]
pub enum Res {
    Unit,
    Ok,
    Err(String),
    SendErr,
    InvalidType,
    ChannelClosed,
    Timeout,
    Success(u64),
    SenderError,
    Found(i64),
    NotFound,
    Bool(bool),
    Skipped,
    Cut,
    Multi(Vec<Res>),
}

#[derive(Clone, Debug, Serialize)]
pub enum Ev {
    Enter { a: usize, cb: Cb, tag: Tag },
    Exit { a: usize, cb: Cb, ok: bool },
    /// callback future dropped before it finished (kill, abort, panic unwinding)
    Unwind { a: usize, cb: Cb, panicking: bool },
    Resumed { a: usize, cb: Cb },
    /// a send performed from inside a callback
    ActSend { a: usize, to: usize, sender: u16, seq: u32, res: Res },
    /// another side effect performed from inside a callback
    ActDone { a: usize, what: String, res: Res },
    Reply { a: usize, id: u32, v: u64, ok: bool },
    OpStart { c: usize, i: usize },
    OpEnd { c: usize, i: usize, res: Res },
    Note(String),
    /// what the world looks like for actor `a` at the moment a waiter returned
    Snap {
        a: usize,
        status: u8,
        name_hit: bool,
        pid_hit: bool,
        in_groups: Vec<u8>,
        pointed_at_by: Vec<usize>,
        own_children: usize,
        has_supervisor: bool,
        listed_by: Vec<usize>,
    },
    /// status of actor `a` as sampled after a gate step (logged on change only)
    Status { a: usize, st: u8 },
}

#[derive(Clone, Debug, Serialize)]
pub struct Event {
    pub step: u64,
    pub t_ns: u64,
    pub task: Option<u64>,
    pub ev: Ev,
}

struct CaseTl {
    trace: Vec<Event>,
    gate: Option<Arc<Gate>>,
    t0: Option<tokio::time::Instant>,
}

thread_local! {
    static CASE: RefCell<CaseTl> = const { RefCell::new(CaseTl { trace: Vec::new(), gate: None, t0: None }) };
}

pub fn now_ns() -> u64 {
    CASE.with(|c| {
        let c = c.borrow();
        c.t0.map(|t0| (tokio::time::Instant::now() - t0).as_nanos() as u64)
            .unwrap_or(0)
    })
}

pub fn log(ev: Ev) {
    CASE.with(|c| {
        let mut c = c.borrow_mut();
        let (step, task) = c
            .gate
            .as_ref()
            .map(|g| (g.step(), g.current()))
            .unwrap_or((0, None));
        let t_ns = c
            .t0
            .map(|t0| (tokio::time::Instant::now() - t0).as_nanos() as u64)
            .unwrap_or(0);
        c.trace.push(Event { step, t_ns, task, ev });
    })
}

pub fn trace_len() -> usize {
    CASE.with(|c| c.borrow().trace.len())
}

pub fn take_trace() -> Vec<Event> {
    CASE.with(|c| std::mem::take(&mut c.borrow_mut().trace))
}

pub fn trace_snapshot() -> Vec<Event> {
    CASE.with(|c| c.borrow().trace.clone())
}

// ---------------------------------------------------------------------------------
// Scenario language

#[derive(Clone, Copy, Debug, PartialEq, Eq, Serialize, Deserialize)]
pub enum Variant {
    Spawn,
    Linked,
    Instant,
    LinkedInstant,
    TlSpawn,
    TlLinked,
    TlInstant,
    TlLinkedInstant,
}

impl Variant {
    pub fn is_linked(self) -> bool {
        matches!(
            self,
            Variant::Linked | Variant::LinkedInstant | Variant::TlLinked | Variant::TlLinkedInstant
        )
    }
    pub fn is_instant(self) -> bool {
        matches!(
            self,
            Variant::Instant | Variant::LinkedInstant | Variant::TlInstant | Variant::TlLinkedInstant
        )
    }
    pub fn is_tl(self) -> bool {
        matches!(
            self,
            Variant::TlSpawn | Variant::TlLinked | Variant::TlInstant | Variant::TlLinkedInstant
        )
    }
}

#[derive(Clone, Debug, PartialEq, Eq, Serialize, Deserialize)]
pub enum Act {
    Yield,
    Sleep(u16),
    SendSelf,
    SendTo(u8),
    Spawn(u8),
    Join(u8),
    Leave(u8),
    MonitorGroup(u8),
    Link(u8),
    Panic,
    Fail,
    StopSelf,
    KillSelf,
    DrainSelf,
    /// block forever (pending future) — only a kill / abort gets past it
    Hang,
}

#[derive(Clone, Copy, Debug, PartialEq, Eq, Serialize, Deserialize)]
pub enum ReplyPolicy {
    Now,
    AfterYields(u8),
    AfterMs(u16),
    FromTask(u8),
    Drop,
    Keep,
}

#[derive(Clone, Debug, Default, Serialize, Deserialize)]
pub struct ActorSpec {
    pub variant: Option<Variant>,
    pub name: Option<u8>,
    pub parent: Option<u8>,
    pub pre_start: Vec<Act>,
    pub post_start: Vec<Act>,
    pub post_stop: Vec<Act>,
    pub handle: Vec<Vec<Act>>,
    pub sup: Vec<Vec<Act>>,
    /// after running the supervision script behave like the default handler (stop on child exit)
    pub sup_stops: bool,
    pub reply: Vec<ReplyPolicy>,
    /// the actor's state panics when dropped (a user-level fault inside ractor's exit path)
    #[serde(default)]
    pub state_drop_panics: bool,
}

impl ActorSpec {
    pub fn variant(&self) -> Variant {
        self.variant.unwrap_or(Variant::Spawn)
    }
}

#[derive(Clone, Debug, PartialEq, Eq, Serialize, Deserialize)]
pub enum SupKind {
    Started,
    Terminated,
    Failed,
}

#[derive(Clone, Debug, PartialEq, Eq, Serialize, Deserialize)]
pub enum Op {
    Spawn(u8),
    /// spawn, but stop polling the spawn future after `k`+1 polls, hold it un-polled for `hold`
    /// more steps, then drop it
    SpawnCut(u8, u8, u8),
    AwaitStart(u8),
    Cast { to: u8, seq: u32 },
    WrongCast(u8),
    /// a call through a wrongly typed ActorRef built from the cell
    WrongCall(u8),
    /// a send through a DerivedActorRef obtained from a wrongly typed ActorRef built from the cell
    WrongDerived(u8),
    Call { to: u8, id: u32, timeout_ms: Option<u16> },
    MultiCall { to: Vec<u8>, id: u32, timeout_ms: Option<u16> },
    CallFwd { to: u8, fwd: u8, id: u32, timeout_ms: Option<u16> },
    Probe(u8),
    Stop(u8),
    StopReason(u8),
    Kill(u8),
    Drain(u8),
    Wait { to: u8, timeout_ms: Option<u16> },
    StopAndWait { to: u8, timeout_ms: Option<u16> },
    KillAndWait { to: u8, timeout_ms: Option<u16> },
    DrainAndWait { to: u8, timeout_ms: Option<u16> },
    AwaitHandle(u8),
    AbortTask(u8),
    Link { child: u8, sup: u8 },
    Unlink { child: u8, sup: u8 },
    NotifySup { child: u8, kind: SupKind },
    /// `who` starts monitoring `target` (monitors feature)
    Monitor { who: u8, target: u8 },
    Unmonitor { who: u8, target: u8 },
    Join { who: u8, group: u8 },
    Leave { who: u8, group: u8 },
    WhereIs(u8),
    StopChildren(u8),
    DrainChildren(u8),
    Yield,
    Sleep(u16),
    /// timers (C12): `derived` uses the DerivedActorRef variant
    SendAfter { to: u8, ms: u16, derived: bool, #[serde(default)] us: u16 },
    SendInterval { to: u8, ms: u16, derived: bool, #[serde(default)] us: u16 },
    ExitAfter { to: u8, ms: u16, #[serde(default)] us: u16, #[serde(default)] derived: bool },
    KillAfter { to: u8, ms: u16, #[serde(default)] us: u16, #[serde(default)] derived: bool },
    AbortTimer(u8),
    AwaitTimer(u8),
    /// output port (C16): publish number `n`
    PortPub(u32),
    /// publish the numbers `first .. first + n` back to back, without giving any other task a turn in between
    PortPubMany { first: u32, n: u8 },
    /// subscribe actor `who` with converter `conv` (skips n when conv < 3 and (n + conv) % 3 == 0)
    PortSub { who: u8, conv: u8 },
}

// ---------------------------------------------------------------------------------
// World

pub enum Msg {
    Num { sender: u16, seq: u32 },
    Call { id: u32, reply: RpcReplyPort<u64> },
    Probe(RpcReplyPort<u64>),
    Fwd(u64),
}
impl ractor::Message for Msg {}

/// a message type convertible into `Msg`, for DerivedActorRef
pub struct DMsg {
    pub sender: u16,
    pub seq: u32,
}
impl ractor::Message for DMsg {}
impl From<DMsg> for Msg {
    fn from(d: DMsg) -> Msg {
        Msg::Num { sender: d.sender, seq: d.seq }
    }
}
impl TryFrom<Msg> for DMsg {
    type Error = ();
    fn try_from(m: Msg) -> Result<DMsg, ()> {
        match m {
            Msg::Num { sender, seq } => Ok(DMsg { sender, seq }),
            _ => Err(()),
        }
    }
}

/// a second message type, for wrong-typed sends
pub struct OtherMsg(pub u32);
impl ractor::Message for OtherMsg {}
/// a message type convertible into `OtherMsg`, for a DerivedActorRef over the wrong type
pub struct OtherD(pub u32);
impl ractor::Message for OtherD {}
impl From<OtherD> for OtherMsg {
    fn from(d: OtherD) -> OtherMsg {
        OtherMsg(d.0)
    }
}
impl TryFrom<OtherMsg> for OtherD {
    type Error = ();
    fn try_from(m: OtherMsg) -> Result<OtherD, ()> {
        Ok(OtherD(m.0))
    }
}
pub struct OtherCall(pub RpcReplyPort<u32>);
impl ractor::Message for OtherCall {}

#[derive(Default)]
pub struct Slot {
    pub cell: Option<ActorRef<Msg>>,
    pub handle: Option<JoinHandle<()>>,
    pub start_handle: Option<JoinHandle<Result<JoinHandle<()>, SpawnErr>>>,
    pub spawn_res: Option<Res>,
    pub aborted: bool,
    pub spawning: bool,
}

pub enum TimerH {
    After(JoinHandle<Result<(), MessagingErr<Msg>>>),
    AfterD(JoinHandle<Result<(), MessagingErr<DMsg>>>),
    Unit(JoinHandle<()>),
    Taken,
}

pub const TIMER_SENDER_BASE: u16 = 2000;

#[derive(Clone)]
pub struct PMsg(pub u32);
impl ractor::Message for PMsg {}

pub const PORT_SENDER_BASE: u16 = 100;

pub struct World {
    pub port: Mutex<Option<Arc<ractor::OutputPort<PMsg>>>>,
    pub subs: Mutex<u16>,
    pub timers: Mutex<Vec<TimerH>>,
    pub prefix: String,
    pub specs: Vec<ActorSpec>,
    pub slots: Mutex<Vec<Slot>>,
    pub ids: Mutex<HashMap<ActorId, usize>>,
    pub tl: Mutex<Option<ThreadLocalActorSpawner>>,
}

static CASE_NO: AtomicU64 = AtomicU64::new(0);

impl World {
    pub fn new(specs: Vec<ActorSpec>) -> Arc<World> {
        let n = CASE_NO.fetch_add(1, Ordering::Relaxed);
        let slots = (0..specs.len()).map(|_| Slot::default()).collect();
        Arc::new(World {
            port: Mutex::new(None),
            subs: Mutex::new(0),
            timers: Mutex::new(vec![]),
            prefix: format!("v{}_{}_", std::process::id(), n),
            specs,
            slots: Mutex::new(slots),
            ids: Mutex::new(HashMap::new()),
            tl: Mutex::new(None),
        })
    }
    pub fn name(&self, n: u8) -> String {
        format!("{}n{}", self.prefix, n)
    }
    pub fn group(&self, g: u8) -> String {
        format!("{}g{}", self.prefix, g)
    }
    pub fn cell(&self, a: usize) -> Option<ActorRef<Msg>> {
        self.slots.lock().unwrap().get(a).and_then(|s| s.cell.clone())
    }
    pub fn idx_of(&self, id: ActorId) -> i64 {
        self.ids
            .lock()
            .unwrap()
            .get(&id)
            .map(|i| *i as i64)
            .unwrap_or(-1)
    }
    pub fn learn(&self, id: ActorId, a: usize) {
        self.ids.lock().unwrap().insert(id, a);
    }
    /// must be called from the root future (inside the LocalSet)
    pub fn init_tl(&self) {
        let mut g = self.tl.lock().unwrap();
        if g.is_none() {
            *g = Some(ThreadLocalActorSpawner::verif_on_current_local_set());
        }
    }
    pub fn spawner(&self) -> Option<ThreadLocalActorSpawner> {
        self.tl.lock().unwrap().clone()
    }
    pub fn all_cells(&self) -> Vec<(usize, ActorRef<Msg>)> {
        self.slots
            .lock()
            .unwrap()
            .iter()
            .enumerate()
            .filter_map(|(i, s)| s.cell.clone().map(|c| (i, c)))
            .collect()
    }
}

pub fn reply_value(a: usize, id: u32) -> u64 {
    (id as u64) * 1000 + a as u64 + 7
}

// ---------------------------------------------------------------------------------
// The scripted actor

#[derive(Default)]
pub struct ScriptActor;

pub struct St {
    w: Arc<World>,
    me: usize,
    handled: u32,
    sup_handled: u32,
    self_seq: u32,
    kept: Vec<RpcReplyPort<u64>>,
}

impl Drop for St {
    fn drop(&mut self) {
        if self.w.specs[self.me].state_drop_panics && !std::thread::panicking() {
            log(Ev::Note(format!("state-drop-panic a{}", self.me)));
            panic!("boom state drop a{}", self.me);
        }
    }
}

struct CbGuard {
    a: usize,
    cb: Cb,
    done: bool,
}
impl Drop for CbGuard {
    fn drop(&mut self) {
        if !self.done {
            log(Ev::Unwind {
                a: self.a,
                cb: self.cb,
                panicking: std::thread::panicking(),
            });
        }
    }
}

pub struct Pending;
impl Future for Pending {
    type Output = ();
    fn poll(self: Pin<&mut Self>, _cx: &mut Context<'_>) -> Poll<()> {
        Poll::Pending
    }
}

/// Runs a future and reports whether it ever returned `Pending` (a real suspension point)
pub struct Susp<F> {
    fut: Pin<Box<F>>,
    suspended: bool,
}
pub fn susp<F: Future>(f: F) -> Susp<F> {
    Susp { fut: Box::pin(f), suspended: false }
}
impl<F: Future> Future for Susp<F> {
    type Output = (F::Output, bool);
    fn poll(mut self: Pin<&mut Self>, cx: &mut Context<'_>) -> Poll<Self::Output> {
        match self.fut.as_mut().poll(cx) {
            Poll::Ready(v) => Poll::Ready((v, self.suspended)),
            Poll::Pending => {
                self.suspended = true;
                Poll::Pending
            }
        }
    }
}

pub const SELF_SENDER_BASE: u16 = 1000;
/// bound on sends performed by one actor's scripts (keeps self-feeding actors finite)
pub const MAX_SCRIPT_SENDS: u32 = 8;

async fn run_script(
    w: &Arc<World>,
    me: usize,
    cb: Cb,
    script: &[Act],
    myself: &ActorRef<Msg>,
    self_seq: &mut u32,
) -> Result<(), ActorProcessingErr> {
    for act in script {
        match act {
            Act::Yield => {
                yield_once().await;
                log(Ev::Resumed { a: me, cb });
            }
            Act::Sleep(ms) => {
                let (_, suspended) = susp(tokio::time::sleep(Duration::from_millis(*ms as u64))).await;
                if suspended {
                    log(Ev::Resumed { a: me, cb });
                }
            }
            Act::Hang => {
                Pending.await;
                log(Ev::Resumed { a: me, cb });
            }
            Act::SendSelf => {
                if *self_seq >= MAX_SCRIPT_SENDS {
                    continue;
                }
                let seq = *self_seq;
                *self_seq += 1;
                let sender = SELF_SENDER_BASE + me as u16;
                let r = myself.cast(Msg::Num { sender, seq });
                log(Ev::ActSend { a: me, to: me, sender, seq, res: send_res(&r) });
            }
            Act::SendTo(t) => {
                if *self_seq >= MAX_SCRIPT_SENDS {
                    continue;
                }
                if let Some(cell) = w.cell(*t as usize) {
                    let seq = *self_seq;
                    *self_seq += 1;
                    let sender = SELF_SENDER_BASE + me as u16;
                    let r = cell.cast(Msg::Num { sender, seq });
                    log(Ev::ActSend { a: me, to: *t as usize, sender, seq, res: send_res(&r) });
                }
            }
            Act::Spawn(idx) => {
                let (res, suspended) = susp(do_spawn(w, *idx as usize, Some(myself.get_cell()))).await;
                if suspended {
                    log(Ev::Resumed { a: me, cb });
                }
                log(Ev::ActDone { a: me, what: format!("spawn {idx}"), res });
            }
            Act::Join(g) => {
                ractor::pg::join(w.group(*g), vec![myself.get_cell()]);
                log(Ev::ActDone { a: me, what: format!("join {g}"), res: Res::Unit });
            }
            Act::Leave(g) => {
                ractor::pg::leave(w.group(*g), vec![myself.get_cell()]);
                log(Ev::ActDone { a: me, what: format!("leave {g}"), res: Res::Unit });
            }
            Act::MonitorGroup(g) => {
                ractor::pg::monitor(w.group(*g), myself.get_cell());
                log(Ev::ActDone { a: me, what: format!("monitor {g}"), res: Res::Unit });
            }
            Act::Link(t) => {
                if let Some(cell) = w.cell(*t as usize) {
                    myself.get_cell().link(cell.get_cell());
                    log(Ev::ActDone { a: me, what: format!("link {t}"), res: Res::Unit });
                }
            }
            Act::Panic => {
                panic!("boom a{me} {cb:?}");
            }
            Act::Fail => {
                return Err(format!("fail a{me} {cb:?}").into());
            }
            Act::StopSelf => {
                myself.stop(None);
                log(Ev::ActDone { a: me, what: "stop_self".into(), res: Res::Unit });
            }
            Act::KillSelf => {
                myself.kill();
                log(Ev::ActDone { a: me, what: "kill_self".into(), res: Res::Unit });
            }
            Act::DrainSelf => {
                let r = myself.drain();
                log(Ev::ActDone {
                    a: me,
                    what: "drain_self".into(),
                    res: if r.is_ok() { Res::Ok } else { Res::Err("drain".into()) },
                });
            }
        }
    }
    Ok(())
}

fn send_res<T>(r: &Result<(), MessagingErr<T>>) -> Res {
    match r {
        Ok(()) => Res::Ok,
        Err(MessagingErr::SendErr(_)) => Res::SendErr,
        Err(MessagingErr::ChannelClosed) => Res::ChannelClosed,
        Err(MessagingErr::InvalidActorType) => Res::InvalidType,
    }
}

pub fn sup_tag(w: &World, evt: &SupervisionEvent) -> Tag {
    match evt {
        SupervisionEvent::ActorStarted(who) => Tag::Started { who: w.idx_of(who.get_id()) },
        SupervisionEvent::ActorTerminated(who, st, reason) => Tag::Terminated {
            who: w.idx_of(who.get_id()),
            has_state: st.is_some(),
            reason: reason.clone(),
        },
        SupervisionEvent::ActorFailed(who, err) => Tag::Failed {
            who: w.idx_of(who.get_id()),
            text: format!("{err}"),
        },
        SupervisionEvent::ProcessGroupChanged(ch) => {
            let (join, cells) = match ch {
                ractor::pg::GroupChangeMessage::Join(_, _, cells) => (true, cells),
                ractor::pg::GroupChangeMessage::Leave(_, _, cells) => (false, cells),
            };
            Tag::Pg {
                join,
                scope: ch.get_scope().to_string(),
                group: ch.get_group().to_string(),
                who: cells.iter().map(|c| w.idx_of(c.get_id())).collect(),
            }
        }
        SupervisionEvent::PidLifecycleEvent(e) => match e {
            ractor::registry::PidLifecycleEvent::Spawn(c) => Tag::Pid { spawn: true, who: w.idx_of(c.get_id()) },
            ractor::registry::PidLifecycleEvent::Terminate(c) => Tag::Pid { spawn: false, who: w.idx_of(c.get_id()) },
        },
    }
}

#[cfg_attr(feature = "async-trait", ractor::async_trait)]
impl Actor for ScriptActor {
    type Msg = Msg;
    type State = St;
    type Arguments = (Arc<World>, usize);

    async fn pre_start(
        &self,
        myself: ActorRef<Msg>,
        (w, me): (Arc<World>, usize),
    ) -> Result<St, ActorProcessingErr> {
        w.learn(myself.get_id(), me);
        {
            // make the cell known to scripts/clients from the very first moment (leaked `myself`)
            let mut slots = w.slots.lock().unwrap();
            if slots[me].cell.is_none() {
                slots[me].cell = Some(myself.clone());
            }
        }
        log(Ev::Enter { a: me, cb: Cb::PreStart, tag: Tag::None });
        let mut guard = CbGuard { a: me, cb: Cb::PreStart, done: false };
        let mut self_seq = 0;
        let script = w.specs[me].pre_start.clone();
        let r = run_script(&w, me, Cb::PreStart, &script, &myself, &mut self_seq).await;
        guard.done = true;
        log(Ev::Exit { a: me, cb: Cb::PreStart, ok: r.is_ok() });
        r?;
        Ok(St { w, me, handled: 0, sup_handled: 0, self_seq, kept: Vec::new() })
    }

    async fn post_start(&self, myself: ActorRef<Msg>, st: &mut St) -> Result<(), ActorProcessingErr> {
        let (w, me) = (st.w.clone(), st.me);
        log(Ev::Enter { a: me, cb: Cb::PostStart, tag: Tag::None });
        let mut guard = CbGuard { a: me, cb: Cb::PostStart, done: false };
        let script = w.specs[me].post_start.clone();
        let r = run_script(&w, me, Cb::PostStart, &script, &myself, &mut st.self_seq).await;
        guard.done = true;
        log(Ev::Exit { a: me, cb: Cb::PostStart, ok: r.is_ok() });
        r
    }

    async fn post_stop(&self, myself: ActorRef<Msg>, st: &mut St) -> Result<(), ActorProcessingErr> {
        let (w, me) = (st.w.clone(), st.me);
        log(Ev::Enter { a: me, cb: Cb::PostStop, tag: Tag::Fwd { v: st.handled as u64 } });
        let mut guard = CbGuard { a: me, cb: Cb::PostStop, done: false };
        let script = w.specs[me].post_stop.clone();
        let r = run_script(&w, me, Cb::PostStop, &script, &myself, &mut st.self_seq).await;
        guard.done = true;
        log(Ev::Exit { a: me, cb: Cb::PostStop, ok: r.is_ok() });
        r
    }

    async fn handle(&self, myself: ActorRef<Msg>, msg: Msg, st: &mut St) -> Result<(), ActorProcessingErr> {
        let (w, me) = (st.w.clone(), st.me);
        let tag = match &msg {
            Msg::Num { sender, seq } => Tag::Num { sender: *sender, seq: *seq },
            Msg::Call { id, .. } => Tag::Call { id: *id },
            Msg::Probe(_) => Tag::Probe,
            Msg::Fwd(v) => Tag::Fwd { v: *v },
        };
        log(Ev::Enter { a: me, cb: Cb::Handle, tag });
        let mut guard = CbGuard { a: me, cb: Cb::Handle, done: false };
        let k = st.handled as usize;
        st.handled += 1;
        let mut result = Ok(());
        match msg {
            Msg::Probe(reply) => {
                let _ = reply.send(st.handled as u64);
            }
            Msg::Fwd(_) => {}
            Msg::Num { .. } => {
                let scripts = &w.specs[me].handle;
                if !scripts.is_empty() {
                    let script = scripts[k % scripts.len()].clone();
                    result = run_script(&w, me, Cb::Handle, &script, &myself, &mut st.self_seq).await;
                }
            }
            Msg::Call { id, reply } => {
                let pols = &w.specs[me].reply;
                let pol = if pols.is_empty() { ReplyPolicy::Now } else { pols[id as usize % pols.len()] };
                let v = reply_value(me, id);
                match pol {
                    ReplyPolicy::Now => {
                        let ok = reply.send(v).is_ok();
                        log(Ev::Reply { a: me, id, v, ok });
                    }
                    ReplyPolicy::AfterYields(n) => {
                        for _ in 0..n {
                            yield_once().await;
                            log(Ev::Resumed { a: me, cb: Cb::Handle });
                        }
                        let ok = reply.send(v).is_ok();
                        log(Ev::Reply { a: me, id, v, ok });
                    }
                    ReplyPolicy::AfterMs(ms) => {
                        let (_, suspended) = susp(tokio::time::sleep(Duration::from_millis(ms as u64))).await;
                        if suspended {
                            log(Ev::Resumed { a: me, cb: Cb::Handle });
                        }
                        let ok = reply.send(v).is_ok();
                        log(Ev::Reply { a: me, id, v, ok });
                    }
                    ReplyPolicy::FromTask(n) => {
                        ractor::concurrency::spawn(async move {
                            for _ in 0..n {
                                yield_once().await;
                            }
                            let ok = reply.send(v).is_ok();
                            log(Ev::Reply { a: me, id, v, ok });
                        });
                    }
                    ReplyPolicy::Drop => {
                        drop(reply);
                    }
                    ReplyPolicy::Keep => {
                        st.kept.push(reply);
                    }
                }
            }
        }
        guard.done = true;
        log(Ev::Exit { a: me, cb: Cb::Handle, ok: result.is_ok() });
        result
    }

    async fn handle_supervisor_evt(
        &self,
        myself: ActorRef<Msg>,
        evt: SupervisionEvent,
        st: &mut St,
    ) -> Result<(), ActorProcessingErr> {
        let (w, me) = (st.w.clone(), st.me);
        let tag = sup_tag(&w, &evt);
        let is_exit = matches!(tag, Tag::Terminated { .. } | Tag::Failed { .. });
        log(Ev::Enter { a: me, cb: Cb::Sup, tag });
        // consume the event (and any boxed state with reply ports in it) right away
        drop(evt);
        let mut guard = CbGuard { a: me, cb: Cb::Sup, done: false };
        let k = st.sup_handled as usize;
        st.sup_handled += 1;
        let mut result = Ok(());
        let scripts = &w.specs[me].sup;
        if !scripts.is_empty() {
            let script = scripts[k % scripts.len()].clone();
            result = run_script(&w, me, Cb::Sup, &script, &myself, &mut st.self_seq).await;
        }
        if result.is_ok() && is_exit && w.specs[me].sup_stops {
            myself.stop(None);
            log(Ev::ActDone { a: me, what: "stop_self".into(), res: Res::Unit });
        }
        guard.done = true;
        log(Ev::Exit { a: me, cb: Cb::Sup, ok: result.is_ok() });
        result
    }
}

// ---------------------------------------------------------------------------------
// Spawning by variant

fn spawn_err(e: &SpawnErr) -> Res {
    Res::Err(format!("{e}"))
}

/// Spawn actor `idx` according to its spec. `default_parent` is used for linked variants
/// whose spec has no explicit parent (spawn from inside a callback).
pub async fn do_spawn(w: &Arc<World>, idx: usize, default_parent: Option<ActorCell>) -> Res {
    if idx >= w.specs.len() {
        return Res::Skipped;
    }
    {
        let mut slots = w.slots.lock().unwrap();
        if slots[idx].spawning || slots[idx].spawn_res.is_some() || slots[idx].cell.is_some() {
            return Res::Skipped;
        }
        slots[idx].spawning = true;
    }
    let spec = &w.specs[idx];
    let variant = spec.variant();
    let name = spec.name.map(|n| w.name(n));
    let parent: Option<ActorCell> = match spec.parent {
        Some(p) => w.cell(p as usize).map(|c| c.get_cell()),
        None => default_parent,
    };
    if variant.is_linked() && parent.is_none() {
        return Res::Skipped;
    }
    let args = (w.clone(), idx);
    macro_rules! done {
        ($r:expr) => {{
            let r = $r;
            let mut slots = w.slots.lock().unwrap();
            match r {
                Ok((cell, handle)) => {
                    w.learn(cell.get_id(), idx);
                    slots[idx].cell = Some(cell);
                    slots[idx].handle = Some(handle);
                    slots[idx].spawn_res = Some(Res::Ok);
                    Res::Ok
                }
                Err(e) => {
                    let r = spawn_err(&e);
                    slots[idx].spawn_res = Some(r.clone());
                    r
                }
            }
        }};
    }
    macro_rules! done_instant {
        ($r:expr) => {{
            let r = $r;
            let mut slots = w.slots.lock().unwrap();
            match r {
                Ok((cell, sh)) => {
                    w.learn(cell.get_id(), idx);
                    slots[idx].cell = Some(cell);
                    slots[idx].start_handle = Some(sh);
                    slots[idx].spawn_res = Some(Res::Ok);
                    Res::Ok
                }
                Err(e) => {
                    let r = spawn_err(&e);
                    slots[idx].spawn_res = Some(r.clone());
                    r
                }
            }
        }};
    }
    match variant {
        Variant::Spawn => done!(Actor::spawn(name, ScriptActor, args).await),
        Variant::Linked => done!(Actor::spawn_linked(name, ScriptActor, args, parent.unwrap()).await),
        Variant::Instant => done_instant!(ractor::ActorRuntime::spawn_instant(name, ScriptActor, args)),
        Variant::LinkedInstant => {
            done_instant!(ractor::ActorRuntime::spawn_linked_instant(name, ScriptActor, args, parent.unwrap()))
        }
        Variant::TlSpawn => {
            let Some(sp) = w.spawner() else { return Res::Skipped };
            done!(<ScriptActor as ThreadLocalActor>::spawn(name, args, sp).await)
        }
        Variant::TlLinked => {
            let Some(sp) = w.spawner() else { return Res::Skipped };
            done!(<ScriptActor as ThreadLocalActor>::spawn_linked(name, args, parent.unwrap(), sp).await)
        }
        Variant::TlInstant => {
            let Some(sp) = w.spawner() else { return Res::Skipped };
            done_instant!(<ScriptActor as ThreadLocalActor>::spawn_instant(name, args, sp))
        }
        Variant::TlLinkedInstant => {
            let Some(sp) = w.spawner() else { return Res::Skipped };
            done_instant!(<ScriptActor as ThreadLocalActor>::spawn_linked_instant(name, args, parent.unwrap(), sp))
        }
    }
}

/// Polls `fut` at most `k` times, then holds it un-polled for `hold` further polls of this
/// wrapper (one gate step each) and finally drops it (cut-point injection)
pub struct CutAfter<F> {
    fut: Option<Pin<Box<F>>>,
    left: u32,
    hold: u32,
    /// drop the future while a panic unwinds (what happens to a spawn future owned by a task that panics)
    unwind: bool,
}
impl<F: Future> CutAfter<F> {
    pub fn new(fut: F, k: u32, hold: u32) -> Self {
        Self { fut: Some(Box::pin(fut)), left: k, hold: hold & 0x7f, unwind: hold & 0x80 != 0 }
    }
}
impl<F: Future> Future for CutAfter<F> {
    type Output = Option<F::Output>;
    fn poll(mut self: Pin<&mut Self>, cx: &mut Context<'_>) -> Poll<Self::Output> {
        if self.left == 0 {
            if self.hold == 0 {
                let f = self.fut.take();
                if self.unwind {
                    // resume_unwind does not run the panic hook; the future is dropped by the unwinding
                    let _ = std::panic::catch_unwind(std::panic::AssertUnwindSafe(move || {
                        let _f = f;
                        std::panic::resume_unwind(Box::new("spawn future dropped by a panicking owner"));
                    }));
                }
                return Poll::Ready(None);
            }
            self.hold -= 1;
            cx.waker().wake_by_ref();
            return Poll::Pending;
        }
        self.left -= 1;
        let r = self.fut.as_mut().unwrap().as_mut().poll(cx);
        match r {
            Poll::Ready(v) => {
                self.fut = None;
                Poll::Ready(Some(v))
            }
            Poll::Pending => {
                if self.left == 0 {
                    // make sure we get polled again to hold / report the cut
                    cx.waker().wake_by_ref();
                }
                Poll::Pending
            }
        }
    }
}

// ---------------------------------------------------------------------------------
// Client ops

fn to_dur(ms: Option<u16>) -> Option<Duration> {
    ms.map(|m| Duration::from_millis(m as u64))
}

fn call_res(r: Result<CallResult<u64>, MessagingErr<Msg>>) -> Res {
    match r {
        Ok(CallResult::Success(v)) => Res::Success(v),
        Ok(CallResult::Timeout) => Res::Timeout,
        Ok(CallResult::SenderError) => Res::SenderError,
        Err(MessagingErr::SendErr(_)) => Res::SendErr,
        Err(MessagingErr::ChannelClosed) => Res::ChannelClosed,
        Err(MessagingErr::InvalidActorType) => Res::InvalidType,
    }
}

pub async fn exec_op(w: &Arc<World>, c: usize, i: usize, op: &Op) -> Res {
    macro_rules! cell {
        ($a:expr) => {
            match w.cell(*$a as usize) {
                Some(c) => c,
                None => return Res::Skipped,
            }
        };
    }
    match op {
        Op::Spawn(idx) => do_spawn(w, *idx as usize, None).await,
        Op::SpawnCut(idx, k, hold) => {
            let w2 = w.clone();
            let idx = *idx as usize;
            match CutAfter::new(async move { do_spawn(&w2, idx, None).await }, *k as u32 + 1, *hold as u32).await {
                Some(r) => r,
                None => {
                    let mut slots = w.slots.lock().unwrap();
                    if idx < slots.len() && slots[idx].spawn_res.is_none() {
                        slots[idx].spawn_res = Some(Res::Cut);
                    }
                    Res::Cut
                }
            }
        }
        Op::AwaitStart(a) => {
            let h = w.slots.lock().unwrap().get_mut(*a as usize).and_then(|s| s.start_handle.take());
            match h {
                None => Res::Skipped,
                Some(h) => match h.await {
                    Ok(Ok(inner)) => {
                        w.slots.lock().unwrap()[*a as usize].handle = Some(inner);
                        Res::Ok
                    }
                    Ok(Err(e)) => spawn_err(&e),
                    Err(e) => Res::Err(format!("join:{}", if e.is_cancelled() { "cancelled" } else { "panic" })),
                },
            }
        }
        Op::Cast { to, seq } => {
            let cell = cell!(to);
            send_res(&cell.cast(Msg::Num { sender: c as u16, seq: *seq }))
        }
        Op::WrongCast(to) => {
            let cell = cell!(to);
            send_res(&cell.get_cell().send_message(OtherMsg(7)))
        }
        Op::WrongDerived(to) => {
            let cell = cell!(to);
            let wrong: ActorRef<OtherMsg> = cell.get_cell().into();
            let d: ractor::DerivedActorRef<OtherD> = wrong.get_derived();
            send_res(&d.send_message(OtherD(9)))
        }
        Op::WrongCall(to) => {
            let cell = cell!(to);
            let wrong: ActorRef<OtherCall> = cell.get_cell().into();
            match wrong.call(OtherCall, Some(Duration::from_millis(5))).await {
                Ok(CallResult::Success(v)) => Res::Success(v as u64),
                Ok(CallResult::Timeout) => Res::Timeout,
                Ok(CallResult::SenderError) => Res::SenderError,
                Err(MessagingErr::SendErr(_)) => Res::SendErr,
                Err(MessagingErr::ChannelClosed) => Res::ChannelClosed,
                Err(MessagingErr::InvalidActorType) => Res::InvalidType,
            }
        }
        Op::Call { to, id, timeout_ms } => {
            let cell = cell!(to);
            let id = *id;
            call_res(cell.call(|reply| Msg::Call { id, reply }, to_dur(*timeout_ms)).await)
        }
        Op::MultiCall { to, id, timeout_ms } => {
            let mut cells = Vec::new();
            for t in to {
                cells.push(cell!(t));
            }
            let id = *id;
            match ractor::rpc::multi_call(&cells, |reply| Msg::Call { id, reply }, to_dur(*timeout_ms)).await {
                Ok(v) => Res::Multi(v.into_iter().map(|r| call_res(Ok(r))).collect()),
                Err(e) => call_res(Err(e)),
            }
        }
        Op::CallFwd { to, fwd, id, timeout_ms } => {
            let cell = cell!(to);
            let fwd = cell!(fwd);
            let id = *id;
            match cell.call_and_forward(|reply| Msg::Call { id, reply }, &fwd, Msg::Fwd, to_dur(*timeout_ms)) {
                Err(e) => call_res(Err(e)),
                Ok(h) => match h.await {
                    Ok(CallResult::Success(Ok(()))) => Res::Ok,
                    Ok(CallResult::Success(Err(_))) => Res::SendErr,
                    Ok(CallResult::Timeout) => Res::Timeout,
                    Ok(CallResult::SenderError) => Res::SenderError,
                    Err(_) => Res::Err("join".into()),
                },
            }
        }
        Op::Probe(to) => {
            let cell = cell!(to);
            call_res(cell.call(Msg::Probe, None).await)
        }
        Op::Stop(to) => {
            cell!(to).stop(None);
            Res::Unit
        }
        Op::StopReason(to) => {
            cell!(to).stop(Some("why".to_string()));
            Res::Unit
        }
        Op::Kill(to) => {
            cell!(to).kill();
            Res::Unit
        }
        Op::Drain(to) => match cell!(to).drain() {
            Ok(()) => Res::Ok,
            Err(_) => Res::Err("drain".into()),
        },
        Op::Wait { to, timeout_ms } => match cell!(to).wait(to_dur(*timeout_ms)).await {
            Ok(()) => Res::Ok,
            Err(_) => Res::Timeout,
        },
        Op::StopAndWait { to, timeout_ms } => match cell!(to).stop_and_wait(None, to_dur(*timeout_ms)).await {
            Ok(()) => Res::Ok,
            Err(ractor::RactorErr::Timeout) => Res::Timeout,
            Err(e) => Res::Err(format!("{e}")),
        },
        Op::KillAndWait { to, timeout_ms } => match cell!(to).kill_and_wait(to_dur(*timeout_ms)).await {
            Ok(()) => Res::Ok,
            Err(ractor::RactorErr::Timeout) => Res::Timeout,
            Err(e) => Res::Err(format!("{e}")),
        },
        Op::DrainAndWait { to, timeout_ms } => match cell!(to).drain_and_wait(to_dur(*timeout_ms)).await {
            Ok(()) => Res::Ok,
            Err(ractor::RactorErr::Timeout) => Res::Timeout,
            Err(e) => Res::Err(format!("{e}")),
        },
        Op::AwaitHandle(a) => {
            let h = w.slots.lock().unwrap().get_mut(*a as usize).and_then(|s| s.handle.take());
            match h {
                None => Res::Skipped,
                Some(h) => match h.await {
                    Ok(()) => Res::Ok,
                    Err(e) => Res::Err(if e.is_cancelled() { "cancelled".into() } else { "panic".into() }),
                },
            }
        }
        Op::AbortTask(a) => {
            let mut slots = w.slots.lock().unwrap();
            match slots.get_mut(*a as usize) {
                Some(s) => {
                    if let Some(h) = &s.handle {
                        h.abort();
                        s.aborted = true;
                        Res::Ok
                    } else if let Some(h) = &s.start_handle {
                        h.abort();
                        s.aborted = true;
                        Res::Ok
                    } else {
                        Res::Skipped
                    }
                }
                None => Res::Skipped,
            }
        }
        Op::Link { child, sup } => {
            let (ch, sp) = (cell!(child), cell!(sup));
            if child == sup {
                return Res::Skipped;
            }
            ch.get_cell().link(sp.get_cell());
            Res::Unit
        }
        Op::Unlink { child, sup } => {
            let (ch, sp) = (cell!(child), cell!(sup));
            ch.get_cell().unlink(sp.get_cell());
            Res::Unit
        }
        Op::NotifySup { child, kind } => {
            let ch = cell!(child);
            let evt = match kind {
                SupKind::Started => SupervisionEvent::ActorStarted(ch.get_cell()),
                SupKind::Terminated => SupervisionEvent::ActorTerminated(ch.get_cell(), None, Some(format!("syn-{c}-{i}"))),
                SupKind::Failed => SupervisionEvent::ActorFailed(ch.get_cell(), format!("syn-{c}-{i}").into()),
            };
            ch.get_cell().notify_supervisor(evt);
            Res::Unit
        }
        Op::Monitor { who, target } => {
            let (m, t) = (cell!(who), cell!(target));
            m.get_cell().monitor(t.get_cell());
            Res::Unit
        }
        Op::Unmonitor { who, target } => {
            let (m, t) = (cell!(who), cell!(target));
            m.get_cell().unmonitor(t.get_cell());
            Res::Unit
        }
        Op::Join { who, group } => {
            ractor::pg::join(w.group(*group), vec![cell!(who).get_cell()]);
            Res::Unit
        }
        Op::Leave { who, group } => {
            ractor::pg::leave(w.group(*group), vec![cell!(who).get_cell()]);
            Res::Unit
        }
        Op::WhereIs(n) => match ractor::registry::where_is(w.name(*n)) {
            Some(cell) => Res::Found(w.idx_of(cell.get_id())),
            None => Res::NotFound,
        },
        Op::StopChildren(a) => {
            cell!(a).stop_children(None);
            Res::Unit
        }
        Op::DrainChildren(a) => {
            cell!(a).drain_children();
            Res::Unit
        }
        Op::SendAfter { to, ms, derived, us } => {
            let cell = cell!(to);
            let tid = w.timers.lock().unwrap().len();
            let sender = TIMER_SENDER_BASE + tid as u16;
            if *derived {
                let d: ractor::DerivedActorRef<DMsg> = cell.get_derived();
                let h = d.send_after(Duration::from_micros(*ms as u64 * 1000 + *us as u64), move || {
                    log(Ev::Note(format!("fire {tid} 0")));
                    DMsg { sender, seq: 0 }
                });
                w.timers.lock().unwrap().push(TimerH::AfterD(h));
            } else {
                let h = cell.send_after(Duration::from_micros(*ms as u64 * 1000 + *us as u64), move || {
                    log(Ev::Note(format!("fire {tid} 0")));
                    Msg::Num { sender, seq: 0 }
                });
                w.timers.lock().unwrap().push(TimerH::After(h));
            }
            Res::Found(tid as i64)
        }
        Op::SendInterval { to, ms, derived, us } => {
            let cell = cell!(to);
            let tid = w.timers.lock().unwrap().len();
            let sender = TIMER_SENDER_BASE + tid as u16;
            let n = Arc::new(std::sync::atomic::AtomicU32::new(0));
            let h = if *derived {
                let d: ractor::DerivedActorRef<DMsg> = cell.get_derived();
                d.send_interval(Duration::from_micros((*ms).max(1) as u64 * 1000 + *us as u64), move || {
                    let k = n.fetch_add(1, Ordering::Relaxed) + 1;
                    log(Ev::Note(format!("fire {tid} {k}")));
                    DMsg { sender, seq: k }
                })
            } else {
                cell.send_interval(Duration::from_micros((*ms).max(1) as u64 * 1000 + *us as u64), move || {
                    let k = n.fetch_add(1, Ordering::Relaxed) + 1;
                    log(Ev::Note(format!("fire {tid} {k}")));
                    Msg::Num { sender, seq: k }
                })
            };
            w.timers.lock().unwrap().push(TimerH::Unit(h));
            Res::Found(tid as i64)
        }
        Op::ExitAfter { to, ms, us, derived } => {
            let cell = cell!(to);
            let tid = w.timers.lock().unwrap().len();
            let dur = Duration::from_micros(*ms as u64 * 1000 + *us as u64);
            let h = if *derived { cell.get_derived::<DMsg>().exit_after(dur) } else { cell.exit_after(dur) };
            w.timers.lock().unwrap().push(TimerH::Unit(h));
            Res::Found(tid as i64)
        }
        Op::KillAfter { to, ms, us, derived } => {
            let cell = cell!(to);
            let tid = w.timers.lock().unwrap().len();
            let dur = Duration::from_micros(*ms as u64 * 1000 + *us as u64);
            let h = if *derived { cell.get_derived::<DMsg>().kill_after(dur) } else { cell.kill_after(dur) };
            w.timers.lock().unwrap().push(TimerH::Unit(h));
            Res::Found(tid as i64)
        }
        Op::AbortTimer(k) => {
            let g = w.timers.lock().unwrap();
            match g.get(*k as usize) {
                Some(TimerH::After(h)) => {
                    h.abort();
                    Res::Ok
                }
                Some(TimerH::AfterD(h)) => {
                    h.abort();
                    Res::Ok
                }
                Some(TimerH::Unit(h)) => {
                    h.abort();
                    Res::Ok
                }
                _ => Res::Skipped,
            }
        }
        Op::AwaitTimer(k) => {
            let h = {
                let mut g = w.timers.lock().unwrap();
                match g.get_mut(*k as usize) {
                    Some(t) => std::mem::replace(t, TimerH::Taken),
                    None => TimerH::Taken,
                }
            };
            match h {
                TimerH::After(h) => match h.await {
                    Ok(Ok(())) => Res::Ok,
                    Ok(Err(e)) => send_res::<Msg>(&Err(e)),
                    Err(e) => Res::Err(if e.is_cancelled() { "cancelled".into() } else { "panic".into() }),
                },
                TimerH::AfterD(h) => match h.await {
                    Ok(Ok(())) => Res::Ok,
                    Ok(Err(e)) => send_res::<DMsg>(&Err(e)),
                    Err(e) => Res::Err(if e.is_cancelled() { "cancelled".into() } else { "panic".into() }),
                },
                TimerH::Unit(h) => match h.await {
                    Ok(()) => Res::Ok,
                    Err(e) => Res::Err(if e.is_cancelled() { "cancelled".into() } else { "panic".into() }),
                },
                TimerH::Taken => Res::Skipped,
            }
        }
        Op::PortPub(n) => {
            let port = w.port.lock().unwrap().get_or_insert_with(|| Arc::new(ractor::OutputPort::default())).clone();
            port.send(PMsg(*n));
            Res::Unit
        }
        Op::PortPubMany { first, n } => {
            let port = w.port.lock().unwrap().get_or_insert_with(|| Arc::new(ractor::OutputPort::default())).clone();
            for k in 0..*n as u32 {
                port.send(PMsg(*first + k));
            }
            Res::Unit
        }
        Op::PortSub { who, conv } => {
            let cell = cell!(who);
            let port = w.port.lock().unwrap().get_or_insert_with(|| Arc::new(ractor::OutputPort::default())).clone();
            let sid = {
                let mut g = w.subs.lock().unwrap();
                let s = *g;
                *g += 1;
                s
            };
            let conv = *conv;
            port.subscribe(cell, move |m: PMsg| {
                if conv < 3 && (m.0 + conv as u32) % 3 == 0 {
                    None
                } else {
                    Some(Msg::Num { sender: PORT_SENDER_BASE + sid, seq: m.0 })
                }
            });
            Res::Found(sid as i64)
        }
        Op::Yield => {
            yield_once().await;
            Res::Unit
        }
        Op::Sleep(ms) => {
            tokio::time::sleep(Duration::from_millis(*ms as u64)).await;
            Res::Unit
        }
    }
}

pub const N_GROUPS: u8 = 4;

/// Log what the rest of the system still says about actor `a`
pub fn snapshot(w: &World, a: usize) {
    let Some(cell) = w.cell(a) else { return };
    let id = cell.get_id();
    let name_hit = w.specs[a].name.map_or(false, |n| ractor::registry::where_is(w.name(n)).map_or(false, |c| c.get_id() == id));
    let pid_hit = ractor::registry::where_is_pid(id).is_some();
    let mut in_groups = vec![];
    for g in 0..N_GROUPS {
        if ractor::pg::get_members(&w.group(g)).iter().any(|c| c.get_id() == id) {
            in_groups.push(g);
        }
    }
    let mut pointed_at_by = vec![];
    let mut listed_by = vec![];
    for (i, c) in w.all_cells() {
        if c.try_get_supervisor().map_or(false, |s| s.get_id() == id) {
            pointed_at_by.push(i);
        }
        if c.get_children().iter().any(|ch| ch.get_id() == id) {
            listed_by.push(i);
        }
    }
    log(Ev::Snap {
        a,
        status: cell.get_status() as u8,
        name_hit,
        pid_hit,
        in_groups,
        pointed_at_by,
        own_children: cell.get_children().len(),
        has_supervisor: cell.try_get_supervisor().is_some(),
        listed_by,
    });
}

pub async fn run_client(w: Arc<World>, c: usize, ops: Vec<Op>) {
    for (i, op) in ops.iter().enumerate() {
        log(Ev::OpStart { c, i });
        let res = exec_op(&w, c, i, op).await;
        // a waiter returned: record the world as it is at this very moment (same gate step)
        match op {
            Op::Wait { to, .. } | Op::StopAndWait { to, .. } | Op::KillAndWait { to, .. } | Op::DrainAndWait { to, .. } | Op::AwaitHandle(to)
                if res != Res::Skipped =>
            {
                snapshot(&w, *to as usize)
            }
            _ => {}
        }
        log(Ev::OpEnd { c, i, res });
        yield_once().await;
    }
}

// ---------------------------------------------------------------------------------
// Case runner

pub struct Env {
    pub gate: Arc<Gate>,
    pub sched: Schedule,
}

#[derive(Debug, Clone)]
pub struct Violation {
    /// stable signature (used for known-findings matching)
    pub sig: String,
    pub msg: String,
}

pub fn viol(sig: impl Into<String>, msg: impl Into<String>) -> Violation {
    Violation { sig: sig.into(), msg: msg.into() }
}

/// Run one case body inside a fresh paused-clock runtime + LocalSet with a gate installed.
pub fn run_in_runtime<T, F, Fut>(schedule: &[u8], body: F) -> T
where
    F: FnOnce(Env) -> Fut,
    Fut: Future<Output = T>,
{
    run_in_runtime_opts(schedule, false, body)
}

/// `io`: also enable the I/O driver (the cluster's node server binds a listener socket)
pub fn run_in_runtime_opts<T, F, Fut>(schedule: &[u8], io: bool, body: F) -> T
where
    F: FnOnce(Env) -> Fut,
    Fut: Future<Output = T>,
{
    let mut b = tokio::runtime::Builder::new_current_thread();
    b.enable_time().start_paused(true);
    if io {
        b.enable_io();
    }
    let rt = b.build().expect("runtime");
    let gate = Gate::new();
    gate.install();
    CASE.with(|c| {
        let mut c = c.borrow_mut();
        c.trace.clear();
        c.gate = Some(gate.clone());
        c.t0 = None;
    });
    let local = tokio::task::LocalSet::new();
    let env = Env { gate: gate.clone(), sched: Schedule::new(schedule.to_vec()) };
    let out = local.block_on(&rt, async move {
        CASE.with(|c| c.borrow_mut().t0 = Some(tokio::time::Instant::now()));
        body(env).await
    });
    // dropping the LocalSet and the runtime drops every remaining task (their lifecycle
    // guards clean the global registries); do it while the gate is still installed
    drop(local);
    drop(rt);
    Gate::uninstall();
    CASE.with(|c| {
        let mut c = c.borrow_mut();
        c.gate = None;
        c.t0 = None;
    });
    out
}

/// Spawn the clients as gated tasks and drive until they all finished.
pub async fn run_clients(
    env: &mut Env,
    w: &Arc<World>,
    clients: &[Vec<Op>],
    max_steps: u64,
    after_step: impl FnMut(u64, u64),
) -> (DriveEnd, Vec<JoinHandle<()>>) {
    let mut handles = Vec::new();
    for (c, ops) in clients.iter().enumerate() {
        handles.push(ractor::concurrency::spawn(run_client(w.clone(), c, ops.clone())));
    }
    let end = {
        let hs = &handles;
        drive(&env.gate, &mut env.sched, max_steps, || hs.iter().all(|h| h.is_finished()), after_step).await
    };
    (end, handles)
}

/// Kill every actor of the world, then drive until no gated task is left (or stuck)
pub async fn quiesce(env: &mut Env, w: &Arc<World>, kill: bool, max_steps: u64) -> DriveEnd {
    if kill {
        for (_, c) in w.all_cells() {
            c.kill();
        }
    }
    // the thread-local spawner loop lives as long as its sender: drop ours
    *w.tl.lock().unwrap() = None;
    let gate = env.gate.clone();
    // the sweep gets its own budget: everything was killed, so it must terminate
    env.sched.steps_left = env.sched.steps_left.max(max_steps);
    drive(&env.gate, &mut env.sched, max_steps, || gate.live().is_empty(), |_, _| {}).await
}

/// Let the system go quiet without any further input: run every runnable task, let virtual
/// time pass, repeat until nothing happens any more.
pub async fn settle(env: &mut Env) -> bool {
    settle_with(env, |_, _| {}).await
}

/// Returns false when the system did not go quiet within the budget (steps or 200 rounds of
/// 50 ms virtual time): the history is then incomplete and completeness oracles must not judge it.
pub async fn settle_with(env: &mut Env, mut after_step: impl FnMut(u64, u64)) -> bool {
    let gate = env.gate.clone();
    for _ in 0..200 {
        let before = (trace_len(), gate.step());
        if drive(&env.gate, &mut env.sched, 20_000, || gate.runnable().is_empty(), &mut after_step).await == DriveEnd::Budget {
            return false;
        }
        tokio::time::sleep(Duration::from_millis(50)).await;
        if drive(&env.gate, &mut env.sched, 20_000, || gate.runnable().is_empty(), &mut after_step).await == DriveEnd::Budget {
            return false;
        }
        if (trace_len(), gate.step()) == before {
            return true;
        }
    }
    false
}

/// Samples every known cell's status (call after each step); logs changes, reports regressions
#[derive(Default)]
pub struct StatusSampler {
    last: HashMap<usize, u8>,
    pub regression: Option<String>,
}
impl StatusSampler {
    pub fn sample(&mut self, w: &World) {
        for (a, c) in w.all_cells() {
            let st = c.get_status() as u8;
            match self.last.get(&a) {
                Some(prev) if *prev == st => {}
                Some(prev) if *prev > st => {
                    if self.regression.is_none() {
                        self.regression = Some(format!("actor {a}: status went from {prev} back to {st}"));
                    }
                    self.last.insert(a, st);
                    log(Ev::Status { a, st });
                }
                _ => {
                    self.last.insert(a, st);
                    log(Ev::Status { a, st });
                }
            }
        }
    }
}

pub fn status_of(w: &World, a: usize) -> Option<ActorStatus> {
    w.cell(a).map(|c| c.get_status())
}

// ---------------------------------------------------------------------------------
// Generic scenario

#[derive(Clone, Debug, Serialize, Deserialize)]
pub struct Scenario {
    pub specs: Vec<ActorSpec>,
    pub clients: Vec<Vec<Op>>,
    pub schedule: Vec<u8>,
}

pub fn fmt_trace(tr: &[Event]) -> Vec<String> {
    tr.iter()
        .enumerate()
        .map(|(i, e)| format!("#{i:<4} step={:<4} t={:>9}ns task={:<4} {:?}", e.step, e.t_ns, e.task.map(|t| t.to_string()).unwrap_or("-".into()), e.ev))
        .collect()
}

// ---------------------------------------------------------------------------------
// Generic scenario execution

pub struct Exec {
    pub trace: Vec<Event>,
    /// index of the first event of the final sweep (kill everything) in `trace`
    pub cut: usize,
    pub end_main: DriveEnd,
    pub end_sweep: DriveEnd,
    pub client_panic: Option<String>,
    /// data collected by the `final_probe` closure right before the sweep
    pub probe: Vec<String>,
}

pub struct ExecOpts {
    pub settle: bool,
    pub sweep_kill: bool,
    pub jitter: bool,
}

impl Default for ExecOpts {
    fn default() -> Self {
        ExecOpts { settle: true, sweep_kill: true, jitter: false }
    }
}

/// Run a scenario: clients to completion, settle, `probe(world)` , final sweep.
pub fn exec_scenario(
    sc: &Scenario,
    opts: ExecOpts,
    per_step: impl FnMut(&Arc<World>, u64, u64) + 'static,
    probe: impl FnOnce(&Arc<World>) -> Vec<String> + 'static,
) -> Exec {
    let sc2 = sc.clone();
    run_in_runtime(&sc.schedule, |mut env| async move {
        env.sched.jitter = opts.jitter;
        let w = World::new(sc2.specs.clone());
        if sc2.specs.iter().any(|s| s.variant().is_tl()) {
            w.init_tl();
        }
        let w2 = w.clone();
        let per_step_cell = std::rc::Rc::new(RefCell::new(per_step));
        let ps0 = per_step_cell.clone();
        {
            // the same observer also runs right before every granted poll
            let (wp, psp) = (w.clone(), per_step_cell.clone());
            crate::gate::PRE_POLL.with(|h| {
                *h.borrow_mut() = Some(Box::new(move |s, t| {
                    if let Ok(mut f) = psp.try_borrow_mut() {
                        f(&wp, s, t)
                    }
                }))
            });
        }
        let (end_main, handles) = run_clients(&mut env, &w, &sc2.clients, 20_000, move |s, t| (ps0.borrow_mut())(&w2, s, t)).await;
        let mut client_panic = None;
        for h in handles {
            if h.is_finished() {
                if let Err(e) = h.await {
                    if e.is_panic() {
                        client_panic = Some(format!("{:?}", e));
                    }
                }
            }
        }
        let mut end_main = end_main;
        if opts.settle && end_main == DriveEnd::Done {
            let w3 = w.clone();
            let ps = per_step_cell.clone();
            if !settle_with(&mut env, move |s, t| (ps.borrow_mut())(&w3, s, t)).await {
                // still busy (e.g. a slow handler working through a long backlog): the history is
                // incomplete, which every part reports as inconclusive
                log(Ev::Note("settle: not quiet within the budget".into()));
                end_main = DriveEnd::Budget;
            }
        }
        let probe_out = probe(&w);
        let cut = trace_len();
        log(Ev::Note("final-sweep".into()));
        crate::gate::PRE_POLL.with(|h| *h.borrow_mut() = None);
        let end_sweep = quiesce(&mut env, &w, opts.sweep_kill, 20_000).await;
        Exec { trace: take_trace(), cut, end_main, end_sweep, client_panic, probe: probe_out }
    })
}
