#!/bin/bash
# usage: confirm_seed.sh <ID> <m> <demo-src> <dest-rel-path> <test-name> [extra cargo args]
# Confirms in the scratch worktree /tmp/wt/<ID>: patch applies, suite passes with it, demo fails with it and passes without.
ID=$1; M=$2; SRC=$3; DEST=$4; T=$5; shift 5; EXTRA="$*"
WT=/tmp/wt/$ID; OUT=${OUTDIR:-/tmp/wt/out/$ID/$M}
cd $WT || exit 9
git checkout -q -- . ; git clean -fdq -e target
{
echo "### confirm $ID/$M at $(date -u +%FT%TZ)"
git apply --check $OUT/patch.diff && echo "patch applies: yes" || { echo "patch applies: NO"; exit 1; }
mkdir -p $(dirname $DEST); cp $SRC $DEST
echo "--- demo WITHOUT patch"
cargo test --offline -p ${PKG:-ractor} --test $T $EXTRA 2>&1 | grep -E "^test result|^test .*(ok|FAILED)$|error(\[|:)" | head -20
git apply $OUT/patch.diff
echo "--- demo WITH patch"
cargo test --offline -p ${PKG:-ractor} --test $T $EXTRA 2>&1 | grep -E "^test result|^test .*(ok|FAILED)$|error(\[|:)" | head -20
rm -f $DEST
echo "--- existing suite WITH patch"
cargo nextest run --workspace --no-fail-fast --tool-config-file pb:/w/lib/nextest.toml --profile pb --test-threads 8 --offline 2>&1 | grep -E "Summary|FAIL |error(\[|:)" | head -10
git checkout -q -- . ; git clean -fdq -e target
} > $OUT/confirm.txt 2>&1
tail -3 $OUT/confirm.txt
