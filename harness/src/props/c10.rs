//! C10 — a name maps to at most one live actor and is released on exit
//! (E2: linearizability on controlled threads; E1: real actors)

use std::collections::HashMap;
use std::sync::{Arc, Mutex};

use proptest::prelude::*;
use ractor::verif::{DetachedPorts, LifecycleHandle};
use ractor::{ActorCell, SupervisionEvent};
use serde::{Deserialize, Serialize};

use crate::core::{viol, Violation};
use crate::e2::{run_threads, E2Run, Rec, Sched, ThreadCtx};
use crate::gen;
use crate::props::c07::Dummy;
use crate::runner::*;

pub struct C10E2;
pub struct C10E2X;

#[derive(Clone, Debug, PartialEq, Eq, Serialize, Deserialize)]
pub enum NOp {
    /// spawn-time registration: the real ActorCell::new under name `n`
    Reg(u8),
    /// exit of the k-th cell this thread registered successfully (real lifecycle cleanup)
    ExitOwn(u8),
    Lookup(u8),
    LookupPidOwn(u8),
    Registered,
    /// wait() on the k-th own cell (returns at once after the exit)
    WaitOwn(u8),
}

#[derive(Clone, Debug, Serialize, Deserialize)]
pub struct Case {
    pub programs: Vec<Vec<NOp>>,
    pub schedule: Vec<u8>,
}

#[derive(Clone, Debug, PartialEq)]
pub enum RN {
    RegOk(u64),
    RegErr,
    Exited(u64),
    Found(Option<u64>),
    Pid(u64, bool),
    Names(Vec<u8>),
    Waited(u64),
    Skipped,
    Deadlock,
}

pub struct Shared {
    prefix: String,
    own: Mutex<HashMap<usize, Vec<(ActorCell, Option<DetachedPorts>, bool)>>>,
}

static CASE_NO: std::sync::atomic::AtomicU64 = std::sync::atomic::AtomicU64::new(0);

fn name(sh: &Shared, n: u8) -> String {
    format!("{}{}", sh.prefix, n)
}

fn exec(sh: &Shared, ctx: &ThreadCtx, tid: usize, op: &NOp) -> RN {
    match op {
        NOp::Reg(n) => match ractor::verif::detached_cell::<Dummy>(Some(name(sh, *n))) {
            Ok((cell, ports)) => {
                let id = cell.get_id().pid();
                sh.own.lock().unwrap().entry(tid).or_default().push((cell, Some(ports), false));
                RN::RegOk(id)
            }
            Err(_) => RN::RegErr,
        },
        NOp::ExitOwn(k) => {
            let cell = {
                let mut g = sh.own.lock().unwrap();
                let v = g.entry(tid).or_default();
                if v.is_empty() {
                    return RN::Skipped;
                }
                let k = *k as usize % v.len();
                if v[k].2 {
                    return RN::Skipped;
                }
                v[k].2 = true;
                v[k].1 = None; // the exiting task drops its ports
                v[k].0.clone()
            };
            let id = cell.get_id().pid();
            let mut h = LifecycleHandle::new(cell.clone());
            h.mark_running();
            h.finish(SupervisionEvent::ActorTerminated(cell, None, None));
            RN::Exited(id)
        }
        NOp::Lookup(n) => RN::Found(ractor::registry::where_is(name(sh, *n)).map(|c| c.get_id().pid())),
        NOp::LookupPidOwn(k) => {
            let cell = {
                let g = sh.own.lock().unwrap();
                match g.get(&tid) {
                    Some(v) if !v.is_empty() => v[*k as usize % v.len()].0.clone(),
                    _ => return RN::Skipped,
                }
            };
            RN::Pid(cell.get_id().pid(), ractor::registry::where_is_pid(cell.get_id()).is_some())
        }
        NOp::Registered => {
            let names = ractor::registry::registered();
            let mut mine: Vec<u8> = names.iter().filter_map(|n| n.strip_prefix(&sh.prefix).and_then(|r| r.parse().ok())).collect();
            mine.sort();
            RN::Names(mine)
        }
        NOp::WaitOwn(k) => {
            let cell = {
                let g = sh.own.lock().unwrap();
                match g.get(&tid) {
                    Some(v) if !v.is_empty() && v[*k as usize % v.len()].2 => v[*k as usize % v.len()].0.clone(),
                    _ => return RN::Skipped,
                }
            };
            match ctx.block_on(cell.wait(None)) {
                Some(_) => RN::Waited(cell.get_id().pid()),
                None => RN::Deadlock,
            }
        }
    }
}

pub fn strategy(_tier: Tier) -> BoxedStrategy<Case> {
    let op = prop_oneof![
        5 => gen::idx(2).prop_map(NOp::Reg),
        4 => gen::idx(3).prop_map(NOp::ExitOwn),
        4 => gen::idx(2).prop_map(NOp::Lookup),
        1 => gen::idx(3).prop_map(NOp::LookupPidOwn),
        1 => Just(NOp::Registered),
        1 => gen::idx(3).prop_map(NOp::WaitOwn),
    ];
    (proptest::collection::vec(proptest::collection::vec(op, 1..=4), 2..=4), gen::schedule(64))
        .prop_map(|(mut programs, schedule)| {
            // keep the history small enough for the brute-force linearizability check
            let mut total = 0;
            for p in programs.iter_mut() {
                let room = 10usize.saturating_sub(total);
                p.truncate(room.max(1).min(p.len()));
                total += p.len();
            }
            Case { programs, schedule }
        })
        .boxed()
}

/// pids announced to a pid-lifecycle monitor during the last executed case: (spawned, terminated)
static PID_EVENTS: Mutex<(Vec<u64>, Vec<u64>)> = Mutex::new((Vec::new(), Vec::new()));

fn start_pid_monitor() -> (ActorCell, DetachedPorts) {
    let (cell, ports) = ractor::verif::detached_cell::<Dummy>(None).expect("monitor cell");
    ractor::verif::set_status(&cell, ractor::ActorStatus::Running);
    ractor::registry::pid_registry::monitor(cell.clone());
    (cell, ports)
}

fn stop_pid_monitor(mon: (ActorCell, DetachedPorts)) {
    let (cell, mut ports) = mon;
    ractor::registry::pid_registry::demonitor(cell.get_id());
    let mut ev = (vec![], vec![]);
    while let Some(e) = ports.try_recv_supervision() {
        if let SupervisionEvent::PidLifecycleEvent(p) = e {
            match p {
                ractor::registry::PidLifecycleEvent::Spawn(c) => ev.0.push(c.get_id().pid()),
                ractor::registry::PidLifecycleEvent::Terminate(c) => ev.1.push(c.get_id().pid()),
            }
        }
    }
    ractor::verif::set_status(&cell, ractor::ActorStatus::Stopped);
    *PID_EVENTS.lock().unwrap() = ev;
}

pub fn execute(case: &Case, sched: Sched) -> E2Run<RN> {
    let n = CASE_NO.fetch_add(1, std::sync::atomic::Ordering::Relaxed);
    let sh = Arc::new(Shared { prefix: format!("c10_{}_{}_", std::process::id(), n), own: Mutex::new(HashMap::new()) });
    let mon = start_pid_monitor();
    let run = run_threads(sh.clone(), case.programs.clone(), sched, exec);
    stop_pid_monitor(mon);
    // release whatever is still registered
    for (_, v) in sh.own.lock().unwrap().drain() {
        for (cell, _ports, exited) in v {
            if !exited {
                ractor::verif::set_status(&cell, ractor::ActorStatus::Stopped);
            }
        }
    }
    run
}

/// sequential specification + brute-force search for a linearization
fn linearizable(case: &Case, recs: &[Rec<RN>]) -> Result<(), String> {
    #[derive(Clone)]
    struct St {
        names: HashMap<u8, u64>,
        pids: std::collections::HashSet<u64>,
        name_of: HashMap<u64, u8>,
    }
    let ops: Vec<(&NOp, &Rec<RN>)> = recs.iter().map(|r| (&case.programs[r.tid][r.idx], r)).filter(|(_, r)| r.res != RN::Skipped).collect();
    let n = ops.len();
    if n > 12 {
        return Ok(()); // too large to decide; generator keeps histories small
    }
    fn step(st: &St, op: &NOp, res: &RN) -> Option<St> {
        let mut s = st.clone();
        match (op, res) {
            (NOp::Reg(nm), RN::RegOk(id)) => {
                if s.names.contains_key(nm) {
                    return None;
                }
                s.names.insert(*nm, *id);
                s.name_of.insert(*id, *nm);
                s.pids.insert(*id);
                Some(s)
            }
            (NOp::Reg(nm), RN::RegErr) => {
                if s.names.contains_key(nm) {
                    Some(s)
                } else {
                    None
                }
            }
            (NOp::ExitOwn(_), RN::Exited(id)) => {
                if let Some(nm) = s.name_of.get(id).copied() {
                    if s.names.get(&nm) == Some(id) {
                        s.names.remove(&nm);
                    }
                }
                s.pids.remove(id);
                Some(s)
            }
            (NOp::Lookup(nm), RN::Found(f)) => {
                if s.names.get(nm).copied() == *f {
                    Some(s)
                } else {
                    None
                }
            }
            (NOp::LookupPidOwn(_), RN::Pid(id, present)) => {
                if s.pids.contains(id) == *present {
                    Some(s)
                } else {
                    None
                }
            }
            (NOp::Registered, RN::Names(v)) => {
                // `registered()` iterates the map without a global lock: not required to be atomic;
                // every reported name must be explainable, which Lookup already covers. Accept.
                let _ = v;
                Some(s)
            }
            (NOp::WaitOwn(_), RN::Waited(id)) => {
                if s.pids.contains(id) {
                    None // wait returned although the actor has not exited in this linearization
                } else {
                    Some(s)
                }
            }
            _ => None,
        }
    }
    fn dfs(ops: &[(&NOp, &Rec<RN>)], done: &mut Vec<bool>, st: &St, left: usize) -> bool {
        if left == 0 {
            return true;
        }
        for i in 0..ops.len() {
            if done[i] {
                continue;
            }
            // minimal: no other pending op ended before this one started
            let ok = (0..ops.len()).all(|j| done[j] || j == i || !(ops[j].1.end < ops[i].1.start));
            if !ok {
                continue;
            }
            if let Some(next) = step(st, ops[i].0, &ops[i].1.res) {
                done[i] = true;
                if dfs(ops, done, &next, left - 1) {
                    return true;
                }
                done[i] = false;
            }
        }
        false
    }
    let st = St { names: HashMap::new(), pids: Default::default(), name_of: HashMap::new() };
    // an exit is a two-part operation for the spec: the name/pid are released somewhere inside it
    if dfs(&ops, &mut vec![false; n], &st, n) {
        Ok(())
    } else {
        Err(format!(
            "no linearization explains the history: {:?}",
            ops.iter().map(|(o, r)| format!("t{}:{:?}[{}..{}]->{:?}", r.tid, o, r.start, r.end, r.res)).collect::<Vec<_>>()
        ))
    }
}

pub fn check(case: &Case, run: &E2Run<RN>) -> Result<(bool, Vec<String>), Violation> {
    if run.deadlock || run.recs.iter().any(|r| r.res == RN::Deadlock) {
        return Err(viol("C10/wait-after-exit-blocked", "wait() on a cell whose exit had completed blocked forever"));
    }
    linearizable(case, &run.recs).map_err(|e| viol("C10/not-linearizable", e))?;
    // a refused registration has no side effects: the pid-lifecycle monitor hears only about cells whose
    // construction succeeded (the monitor was installed before the threads started)
    {
        let ok_pids: std::collections::HashSet<u64> = run.recs.iter().filter_map(|r| if let RN::RegOk(p) = r.res { Some(p) } else { None }).collect();
        let ev = PID_EVENTS.lock().unwrap();
        if let Some(p) = ev.0.iter().chain(ev.1.iter()).find(|p| !ok_pids.contains(p)) {
            return Err(viol("C10/pid-event-for-refused-spawn", format!("the pid-lifecycle monitor was told about pid {p}, which belongs to no successful registration of this history (refused registrations: {})", run.recs.iter().filter(|r| r.res == RN::RegErr).count())));
        }
        for p in &ok_pids {
            if ev.0.iter().filter(|x| *x == p).count() != 1 {
                return Err(viol("C10/pid-spawn-event-count", format!("pid {p} was registered once but announced {} times to the pid-lifecycle monitor", ev.0.iter().filter(|x| *x == p).count())));
            }
        }
    }
    // non-trivial: two register intervals on the same name overlap, or a release overlaps a register
    let recs = &run.recs;
    let op = |r: &Rec<RN>| &case.programs[r.tid][r.idx];
    let mut nontrivial = false;
    for a in recs {
        for b in recs {
            if a.tid != b.tid && a.start < b.end && b.start < a.end {
                match (op(a), op(b)) {
                    (NOp::Reg(x), NOp::Reg(y)) if x == y => nontrivial = true,
                    (NOp::Reg(_), NOp::ExitOwn(_)) if b.res != RN::Skipped => nontrivial = true,
                    _ => {}
                }
            }
        }
    }
    Ok((nontrivial && run.preemptions > 0, vec![]))
}

fn run_case(case: &Case, want_trace: bool, sched: Sched) -> (Outcome, Vec<(usize, usize)>) {
    let run = execute(case, sched);
    let trace = if want_trace {
        run.recs.iter().map(|r| format!("thread {} op {} {:?} [{}..{}] -> {:?}", r.tid, r.idx, case.programs[r.tid][r.idx], r.start, r.end, r.res)).collect()
    } else {
        vec![]
    };
    let log = run.choice_log.clone();
    let o = match check(case, &run) {
        Err(v) => Outcome { verdict: Verdict::Fail(v), nontrivial: false, labels: vec![], trace },
        Ok((nontrivial, labels)) => Outcome { verdict: Verdict::Pass, nontrivial, labels, trace },
    };
    (o, log)
}

impl Part for C10E2 {
    type Case = Case;
    const PROP: &'static str = "C10";
    const PART: &'static str = "e2";
    fn cases(tier: Tier) -> u32 {
        match tier {
            Tier::Quick => 30_000,
            Tier::Thorough => 1_000_000,
        }
    }
    fn strategy(tier: Tier) -> BoxedStrategy<Case> {
        strategy(tier)
    }
    fn run(case: &Case, want_trace: bool) -> Outcome {
        run_case(case, want_trace, Sched::Bytes(case.schedule.clone())).0
    }
    fn rule() -> &'static str {
        "generated programs for 2-4 controlled OS threads over 2 names: spawn-time registration (the real ActorCell::new), exit (the real lifecycle cleanup), where_is, where_is_pid, registered(), wait; <=10 operations per history; preemption at every verif_point! in registration, set_status clean-up and notify; oracle = brute-force linearizability against the sequential name-table specification (Register -> Ok|AlreadyRegistered, release inside the exit, Lookup), plus: a pid-lifecycle monitor installed before the threads start hears about every successfully registered pid exactly once and about no other pid (a refused registration has no side effects); non-trivial = two registrations of one name, or a registration and an exit, overlap with >=1 preemption"
    }
}

#[derive(Clone, Debug, Serialize, Deserialize)]
pub struct XCase {
    pub programs: Vec<Vec<NOp>>,
    pub choices: Vec<usize>,
    pub max_preempt: u32,
}

fn small_programs() -> Vec<Vec<Vec<NOp>>> {
    vec![
        vec![vec![NOp::Reg(0)], vec![NOp::Reg(0)]],
        vec![vec![NOp::Reg(0), NOp::ExitOwn(0)], vec![NOp::Reg(0)]],
        vec![vec![NOp::Reg(0), NOp::ExitOwn(0)], vec![NOp::Lookup(0), NOp::Lookup(0)]],
        vec![vec![NOp::Reg(0), NOp::ExitOwn(0), NOp::WaitOwn(0)], vec![NOp::Reg(0), NOp::Lookup(0)]],
        vec![vec![NOp::Reg(0)], vec![NOp::Reg(0)], vec![NOp::Lookup(0)]],
    ]
}

impl Part for C10E2X {
    type Case = XCase;
    const PROP: &'static str = "C10";
    const PART: &'static str = "e2-exhaustive";
    const EXHAUSTIVE: bool = true;
    fn cases(_tier: Tier) -> u32 {
        0
    }
    fn strategy(_tier: Tier) -> BoxedStrategy<XCase> {
        Just(XCase { programs: vec![], choices: vec![], max_preempt: 0 }).boxed()
    }
    fn enumerate(tier: Tier, visit: &mut dyn FnMut(&XCase, Outcome) -> bool) {
        let bound = if tier == Tier::Quick { 2 } else { 4 };
        for programs in small_programs() {
            let case = Case { programs: programs.clone(), schedule: vec![] };
            let (_runs, complete) = crate::e2::enumerate_schedules(3_000_000, |choices| {
                let (mut o, log) = run_case(&case, false, Sched::Explicit(choices.clone(), Some(bound)));
                o.nontrivial = log.iter().any(|c| c.0 != 0);
                let xc = XCase { programs: programs.clone(), choices: log.iter().map(|c| c.0).collect(), max_preempt: bound };
                if !visit(&xc, o) {
                    return vec![];
                }
                log
            });
            if !complete {
                // the visitor stopped the enumeration (violation found)
                return;
            }
        }
    }
    fn run(case: &XCase, want_trace: bool) -> Outcome {
        let c = Case { programs: case.programs.clone(), schedule: vec![] };
        let mut o = run_case(&c, want_trace, Sched::Explicit(case.choices.clone(), Some(case.max_preempt))).0;
        o.nontrivial = case.choices.iter().any(|c| *c != 0);
        o
    }
    fn rule() -> &'static str {
        "bounded exhaustive generation: every schedule with at most 2 (quick) / 4 (thorough) preemptions of five small programs ({reg|reg}, {reg;exit|reg}, {reg;exit|lookup;lookup}, {reg;exit;wait|reg;lookup}, {reg|reg|lookup}) on one name, checked for linearizability; non-trivial = schedule with >=1 preemption"
    }
}


// ---- free-running part -----------------------------------------------------------------

pub struct C10Free;

#[derive(Clone, Debug, Serialize, Deserialize)]
pub struct FreeCase {
    pub programs: Vec<Vec<NOp>>,
    pub spin: Vec<u32>,
    pub rounds: u16,
}

impl Part for C10Free {
    type Case = FreeCase;
    const PROP: &'static str = "C10";
    const PART: &'static str = "free";
    const DETERMINISTIC: bool = false;
    fn cases(tier: Tier) -> u32 {
        match tier {
            Tier::Quick => 1_600,
            Tier::Thorough => 60_000,
        }
    }
    fn strategy(tier: Tier) -> BoxedStrategy<FreeCase> {
        (strategy(tier), proptest::collection::vec(0u32..400, 4)).prop_map(|(c, spin)| FreeCase { programs: c.programs, spin, rounds: 12 }).boxed()
    }
    fn run(case: &FreeCase, want_trace: bool) -> Outcome {
        let c = Case { programs: case.programs.clone(), schedule: vec![] };
        let mut nontrivial = false;
        for _ in 0..case.rounds {
            let n = CASE_NO.fetch_add(1, std::sync::atomic::Ordering::Relaxed);
            let sh = Arc::new(Shared { prefix: format!("c10f_{}_{}_", std::process::id(), n), own: Mutex::new(HashMap::new()) });
            let mon = start_pid_monitor();
            let run = crate::e2::run_threads_free(sh.clone(), c.programs.clone(), case.spin.clone(), exec);
            stop_pid_monitor(mon);
            for (_, v) in sh.own.lock().unwrap().drain() {
                for (cell, _ports, exited) in v {
                    if !exited {
                        ractor::verif::set_status(&cell, ractor::ActorStatus::Stopped);
                    }
                }
            }
            let trace = if want_trace {
                run.recs.iter().map(|r| format!("thread {} op {} {:?} [{}..{}] -> {:?}", r.tid, r.idx, c.programs[r.tid][r.idx], r.start, r.end, r.res)).collect()
            } else {
                vec![]
            };
            match check(&c, &run) {
                Err(mut v) => {
                    v.msg = format!("(free-running threads; observed history) {}", v.msg);
                    return Outcome { verdict: Verdict::Fail(v), nontrivial: false, labels: vec![], trace };
                }
                Ok((nt, _)) => nontrivial |= nt,
            }
        }
        Outcome { verdict: Verdict::Pass, nontrivial, labels: vec![], trace: vec![] }
    }
    fn rule() -> &'static str {
        "the same generated programs as part e2, run 12 times each on free-running OS threads released from a barrier with generated busy-wait offsets (no schedule control: reaches windows that contain no verif_point!); operation intervals stamped by a shared atomic counter; same linearizability oracle; non-deterministic by nature, a violation is reported with the observed history; non-trivial = overlapping registration/registration or registration/exit intervals were observed"
    }
}

// ---- E1 part: real actors ---------------------------------------------------------------

pub struct C10E1;

mod e1 {
    use std::cell::RefCell;
    use std::rc::Rc;

    use proptest::prelude::*;

    use crate::core::*;
    use crate::gate::DriveEnd;
    use crate::gen;
    use crate::runner::*;

    pub fn strategy(tier: Tier) -> BoxedStrategy<Scenario> {
        let max_sched = if tier == Tier::Quick { 128 } else { 256 };
        (3u8..=6)
            .prop_flat_map(move |n| {
                let spec = (
                    gen::variant_any(),
                    gen::idx(2),
                    proptest::collection::vec(prop_oneof![4 => Just(Act::Yield), 1 => (0u16..3).prop_map(Act::Sleep)], 0..=2),
                    prop_oneof![6 => Just(None), 1 => Just(Some(Act::Fail)), 1 => Just(Some(Act::Panic))],
                    proptest::collection::vec(Just(Act::Yield), 0..=2),
                );
                let op = prop_oneof![
                    6 => gen::idx(n).prop_map(Op::Spawn),
                    1 => (gen::idx(n), 0u8..4, 0u8..3).prop_map(|(a, k, h)| Op::SpawnCut(a, k, h)),
                    3 => gen::idx(n).prop_map(Op::Stop),
                    2 => gen::idx(n).prop_map(Op::Kill),
                    1 => gen::idx(n).prop_map(Op::Drain),
                    1 => gen::idx(n).prop_map(Op::AbortTask),
                    4 => gen::idx(2).prop_map(Op::WhereIs),
                    2 => gen::idx(n).prop_map(|a| Op::Wait { to: a, timeout_ms: Some(45) }),
                    3 => Just(Op::Yield),
                ];
                (
                    proptest::collection::vec(spec, n as usize),
                    proptest::collection::vec(proptest::collection::vec(op, 1..=8), 2..=4),
                    gen::schedule(max_sched),
                )
            })
            .prop_map(|(specs, mut clients, schedule)| {
                let mut out = vec![ActorSpec { variant: Some(Variant::Spawn), sup_stops: false, ..Default::default() }];
                for (variant, name, mut pre, fail, post_stop) in specs {
                    if let Some(f) = fail {
                        pre.push(f);
                    }
                    out.push(ActorSpec { variant: Some(variant), name: Some(name), parent: if variant.is_linked() { Some(0) } else { None }, pre_start: pre, post_stop, ..Default::default() });
                }
                // indices shift by one because of the supervisor in slot 0
                for c in clients.iter_mut() {
                    for op in c.iter_mut() {
                        match op {
                            Op::Spawn(a) | Op::Stop(a) | Op::Kill(a) | Op::Drain(a) | Op::AbortTask(a) => *a += 1,
                            Op::SpawnCut(a, _, _) => *a += 1,
                            Op::Wait { to, .. } => *to += 1,
                            _ => {}
                        }
                    }
                }
                clients[0].insert(0, Op::Spawn(0));
                // every waiter must be able to finish
                let n = out.len() as u8;
                let mut killer = vec![Op::Sleep(30)];
                for a in 1..n {
                    killer.push(Op::Kill(a));
                }
                clients.push(killer);
                Scenario { specs: out, clients, schedule }
            })
            .boxed()
    }

    #[derive(Default)]
    pub struct Mon {
        pub violation: Option<Violation>,
    }
    impl Mon {
        fn sample(&mut self, w: &World, step: u64) {
            if self.violation.is_some() {
                return;
            }
            for n in 0..2u8 {
                if let Some(cell) = ractor::registry::where_is(w.name(n)) {
                    if cell.get_status() == ractor::ActorStatus::Stopped {
                        self.violation = Some(viol("C10/lookup-yields-stopped-actor", format!("after step {step}: where_is(name {n}) returns an actor whose status is Stopped")));
                        return;
                    }
                    if cell.get_name() != Some(w.name(n)) {
                        self.violation = Some(viol("C10/lookup-yields-wrong-actor", format!("after step {step}: where_is(name {n}) returns an actor named {:?}", cell.get_name())));
                        return;
                    }
                    if ractor::registry::where_is_pid(cell.get_id()).is_none() && cell.get_status() < ractor::ActorStatus::Stopping {
                        self.violation = Some(viol("C10/named-but-no-pid", format!("after step {step}: the live holder of name {n} is not in the pid registry")));
                        return;
                    }
                }
            }
        }
    }

    pub fn check(sc: &Scenario, ex: &Exec, mon: &Mon) -> Result<(bool, Vec<String>), Violation> {
        if let Some(v) = &mon.violation {
            return Err(v.clone());
        }
        let tr = &ex.trace;
        let op_of = |c: usize, i: usize| sc.clients.get(c).and_then(|ops| ops.get(i));
        let name_of = |a: usize| sc.specs[a].name;
        #[derive(Clone, Copy, Debug, PartialEq)]
        enum H {
            Free,
            Held(usize),
            /// the last holder is being torn down at a moment the harness cannot observe (aborted or
            /// cancelled start whose cell never became visible): either answer is acceptable
            Maybe(usize),
        }
        let mut holder = [H::Free, H::Free];
        // spawn ops in flight: (c,i) -> (actor, state of the name when the call began)
        let mut inflight: std::collections::HashMap<(usize, usize), (usize, H)> = Default::default();
        let mut contested = false;
        let mut labels = vec![];
        let mut began_stopping: std::collections::HashSet<usize> = Default::default();
        for (pos, e) in tr.iter().enumerate() {
            match &e.ev {
                Ev::OpStart { c, i } => match op_of(*c, *i) {
                    Some(Op::Spawn(a)) | Some(Op::SpawnCut(a, _, _)) => {
                        let a = *a as usize;
                        let already = tr[..pos].iter().any(|x| matches!(&x.ev, Ev::OpStart { c: c2, i: i2 } if matches!(op_of(*c2, *i2), Some(Op::Spawn(b)) | Some(Op::SpawnCut(b, _, _)) if *b as usize == a)));
                        // the harness skips a spawn it cannot perform (e.g. linked, parent not spawned yet):
                        // such an op returns at once with Skipped and never reaches ractor
                        let skipped = tr[pos..].iter().find_map(|x| match &x.ev {
                            Ev::OpEnd { c: c2, i: i2, res } if c2 == c && i2 == i => Some(*res == Res::Skipped),
                            _ => None,
                        });
                        if already || skipped == Some(true) {
                            continue;
                        }
                        if let Some(n) = name_of(a) {
                            let before = holder[n as usize];
                            match before {
                                H::Free => holder[n as usize] = H::Held(a),
                                H::Held(_) => contested = true,
                                H::Maybe(_) => contested = true,
                            }
                            inflight.insert((*c, *i), (a, before));
                        }
                    }
                    _ => {}
                },
                Ev::OpEnd { c, i, res } => match op_of(*c, *i) {
                    Some(Op::Spawn(_)) | Some(Op::SpawnCut(_, _, _)) => {
                        if let Some((a, before)) = inflight.remove(&(*c, *i)) {
                            let n = name_of(a).unwrap() as usize;
                            let is_reg_err = matches!(res, Res::Err(m) if m.contains("registered"));
                            match before {
                                H::Free if is_reg_err => {
                                    return Err(viol("C10/free-name-refused", format!("spawn of actor {a} began at a moment its name {n} was free but failed with {res:?} (#{pos})")));
                                }
                                H::Held(h) if !is_reg_err && *res != Res::Skipped => {
                                    return Err(viol(
                                        "C10/duplicate-registration",
                                        format!("spawn of actor {a} began while actor {h} held name {n}, yet it returned {res:?} instead of ActorAlreadyRegistered (#{pos})"),
                                    ));
                                }
                                // (the actor may already have begun to stop — and released the name — before
                                // its own spawn call returned: another client can reach it through its cell)
                                // and somebody else may have taken the name since (then the table already says so)
                                H::Maybe(_) if !is_reg_err => {
                                    if matches!(holder[n], H::Maybe(_)) {
                                        holder[n] = if began_stopping.contains(&a) { H::Maybe(a) } else { H::Held(a) };
                                    }
                                }
                                _ => {}
                            }
                            let registered = matches!(before, H::Free) || (matches!(before, H::Maybe(_)) && !is_reg_err);
                            if !registered && tr.iter().any(|x| matches!(&x.ev, Ev::Enter { a: b, .. } if *b == a)) {
                                return Err(viol("C10/loser-ran", format!("actor {a} lost the race for name {n} but one of its callbacks ran")));
                            }
                            // a failed or cut start releases the name: synchronously for Send starts that never
                            // reached pre_start's end; at an unobservable later point for thread-local / instant ones
                            if registered && holder[n] == H::Held(a) && matches!(res, Res::Err(_) | Res::Cut) {
                                let v = sc.specs[a].variant();
                                let started = tr[..pos].iter().any(|x| matches!(&x.ev, Ev::Exit { a: b, cb: Cb::PreStart, ok: true } if *b == a));
                                let link_refused = matches!(res, Res::Err(m) if m.contains("shutting down"));
                                if v.is_instant() {
                                    // spawn_instant itself only fails on the name; nothing to release here
                                } else if !v.is_tl() && (!started || link_refused) {
                                    holder[n] = H::Free;
                                } else if v.is_tl() && (!started || link_refused) {
                                    holder[n] = H::Maybe(a);
                                }
                            }
                        }
                    }
                    Some(Op::AwaitStart(a)) => {
                        let a = *a as usize;
                        if let Some(n) = name_of(a) {
                            if holder[n as usize] == H::Held(a) && matches!(res, Res::Err(_)) {
                                holder[n as usize] = H::Maybe(a);
                            }
                        }
                    }
                    Some(Op::AbortTask(a)) if *res == Res::Ok => {
                        let a = *a as usize;
                        if let Some(n) = name_of(a) {
                            if holder[n as usize] == H::Held(a) {
                                holder[n as usize] = H::Maybe(a);
                            }
                        }
                    }
                    Some(Op::WhereIs(n)) => {
                        let n = *n as usize;
                        let ok = match (res, holder[n]) {
                            (Res::NotFound, H::Free) => true,
                            (Res::Found(x), H::Held(h)) => *x == h as i64 || *x == -1,
                            (Res::NotFound, H::Maybe(_)) => true,
                            // ... or a spawn that began meanwhile and has taken the name (its call has not returned yet)
                            (Res::Found(x), H::Maybe(h)) => *x == h as i64 || *x == -1 || inflight.values().any(|(a, _)| *a as i64 == *x && name_of(*a) == Some(n as u8)),
                            _ => false,
                        };
                        if !ok {
                            return Err(viol("C10/lookup-mismatch", format!("where_is(name {n}) returned {res:?} at #{pos}, the history says the name is {:?}", holder[n])));
                        }
                    }
                    _ => {}
                },
                Ev::Status { a, st } if *st >= 5 => {
                    began_stopping.insert(*a);
                    if let Some(n) = name_of(*a) {
                        if holder[n as usize] == H::Held(*a) || holder[n as usize] == H::Maybe(*a) {
                            holder[n as usize] = H::Free;
                        }
                    }
                }
                _ => {}
            }
        }
        if contested {
            labels.push("contested-name".to_string());
        }
        Ok((contested, labels))
    }

    pub fn run(case: &Scenario, want_trace: bool) -> Outcome {
        let mon = Rc::new(RefCell::new(Mon::default()));
        let sampler = Rc::new(RefCell::new(StatusSampler::default()));
        let (m2, s2) = (mon.clone(), sampler.clone());
        let ex = exec_scenario(
            case,
            ExecOpts::default(),
            move |w, step, _| {
                s2.borrow_mut().sample(w);
                m2.borrow_mut().sample(w, step);
            },
            |_| vec![],
        );
        let trace = if want_trace { fmt_trace(&ex.trace) } else { vec![] };
        if let Some(p) = &ex.client_panic {
            return Outcome { verdict: Verdict::Fail(viol("C10/client-panic", p.clone())), nontrivial: false, labels: vec![], trace };
        }
        let m = mon.borrow();
        match check(case, &ex, &m) {
            Err(v) => Outcome { verdict: Verdict::Fail(v), nontrivial: false, labels: vec![], trace },
            Ok((nontrivial, labels)) => {
                if ex.end_main == DriveEnd::Budget || ex.end_sweep == DriveEnd::Budget {
                    return Outcome { verdict: Verdict::Inconclusive("step budget".into()), nontrivial: false, labels, trace };
                }
                if ex.end_main == DriveEnd::Stuck || ex.end_sweep == DriveEnd::Stuck {
                    return Outcome { verdict: Verdict::Fail(viol("C10/stuck", format!("main={:?} sweep={:?}", ex.end_main, ex.end_sweep))), nontrivial, labels, trace };
                }
                Outcome { verdict: Verdict::Pass, nontrivial, labels, trace }
            }
        }
    }
}

impl Part for C10E1 {
    type Case = crate::core::Scenario;
    const PROP: &'static str = "C10";
    const PART: &'static str = "e1";
    fn cases(tier: Tier) -> u32 {
        match tier {
            Tier::Quick => 60_000,
            Tier::Thorough => 1_500_000,
        }
    }
    fn strategy(tier: Tier) -> BoxedStrategy<Self::Case> {
        e1::strategy(tier)
    }
    fn run(case: &Self::Case, want_trace: bool) -> Outcome {
        e1::run(case, want_trace)
    }
    fn rule() -> &'static str {
        "generated real actors (all 8 spawn variants, some with failing pre_start) competing for 2 names: 2-4 clients issue named spawns (also cut spawns), stops/kills/drains/task aborts, where_is and waits at generated steps; oracle = sequential name-table model replayed over the totally ordered E1 history (registration at the spawn call, release at the sampled Stopping transition or at the return of a failed start), lookups must match the model, losers must not run, where_is never yields a Stopped or pid-less actor (checked after every step); non-trivial = some spawn began while its name was taken"
    }
}
