#!/bin/bash
# usage: run_seeds.sh [dir-name ...]  — applies each seeded change to /repo, runs the quick check(s) of its
# property, undoes it; prints one line per (seed, check): the first violation signature or MISSED.
cd /verif
DIRS="$@"; [ -z "$DIRS" ] && DIRS=$(ls seeded)
for d in $DIRS; do
  [ -d seeded/$d ] || continue
  id=${d%%-*}
  p=seeded/$d/patch.diff; [ -f seeded/$d/patch.ported.diff ] && p=seeded/$d/patch.ported.diff
  checks=$id
  case $d in C01-m1) checks="C01 C03";; C02-m2) checks="C02 C07";; C04-m2) checks="C04 C08";; C09-m2) checks="C09 C20";; C02-m4) checks="C02 C07";; C06-m5) checks="C06 C10";; esac
  for c in $checks; do
    out=$(tools/withpatch.sh $p ./check $c quick 2>&1)
    sig=$(echo "$out" | grep -a "violation detail" | sed 's/violation detail: \([^ ]*\).*/\1/' | sort | uniq -c | sort -rn | head -3 | awk '{printf "%s(x%s) ", $2, $1}')
    if echo "$out" | grep -aq "does not apply"; then sig="PATCH-DOES-NOT-APPLY"; fi
    if echo "$out" | grep -aq "HARNESS-BUILD-FAILED"; then sig="BUILD-FAILED"; fi
    [ -z "$sig" ] && sig="MISSED"
    echo -e "$d\t$c\t$(basename $p)\t$sig"
  done
done
