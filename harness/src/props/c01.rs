//! C01 — one handler at a time, in lifecycle order (E1)

use std::collections::HashMap;

use proptest::prelude::*;

use crate::core::*;
use crate::gate::DriveEnd;
use crate::gen;
use crate::runner::*;

pub struct C01;
#[cfg(feature = "async-trait")]
pub struct C01At;

fn spec_strategy(i: u8, n: u8) -> BoxedStrategy<ActorSpec> {
    let variant = if i == 0 {
        prop_oneof![
            3 => Just(Variant::Spawn),
            1 => Just(Variant::Instant),
            2 => Just(Variant::TlSpawn),
            1 => Just(Variant::TlInstant),
        ]
        .boxed()
    } else {
        gen::variant_any()
    };
    let start_act = gen::any_act_w(n, 2, 60);
    let act = gen::any_act_w(n, 2, 30);
    let act_spawn = prop_oneof![
        10 => gen::any_act_w(n, 2, 40),
        1 => gen::idx(n).prop_map(Act::Spawn),
    ]
    .boxed();
    (
        variant,
        gen::script(start_act.clone(), 3),
        gen::script(start_act, 3),
        gen::script(act.clone(), 3),
        proptest::collection::vec(gen::script(act_spawn, 4), 0..=3),
        proptest::collection::vec(gen::script(act, 2), 0..=2),
        any::<bool>(),
        // spawned by client 0 (true) or left for an Act::Spawn of another actor (false)
        prop::bool::weighted(0.8),
    )
        .prop_map(move |(variant, pre_start, post_start, post_stop, handle, sup, sup_stops, by_client)| ActorSpec {
            variant: Some(variant),
            name: None,
            parent: if i > 0 && by_client && variant.is_linked() { Some(0) } else { None },
            pre_start,
            post_start,
            post_stop,
            handle,
            sup,
            sup_stops,
            reply: vec![],
            state_drop_panics: false,
        })
        .boxed()
}

fn op_strategy(n: u8) -> BoxedStrategy<Op> {
    prop_oneof![
        16 => (gen::idx(n), 0u32..1000).prop_map(|(to, seq)| Op::Cast { to, seq }),
        2 => gen::idx(n).prop_map(Op::Stop),
        1 => gen::idx(n).prop_map(Op::StopReason),
        2 => gen::idx(n).prop_map(Op::Kill),
        1 => gen::idx(n).prop_map(Op::Drain),
        1 => gen::idx(n).prop_map(Op::AbortTask),
        1 => gen::idx(n).prop_map(Op::Spawn),
        4 => Just(Op::Yield),
        1 => (0u16..4).prop_map(Op::Sleep),
    ]
    .boxed()
}

pub fn scenario_strategy(tier: Tier) -> BoxedStrategy<Scenario> {
    let (max_ops, max_sched) = match tier {
        Tier::Quick => (8usize, 96usize),
        Tier::Thorough => (16, 192),
    };
    (1u8..=3)
        .prop_flat_map(move |n| {
            let specs: Vec<BoxedStrategy<ActorSpec>> = (0..n).map(|i| spec_strategy(i, n)).collect();
            (
                specs,
                proptest::collection::vec(proptest::collection::vec(op_strategy(n), 0..=max_ops), 1..=3),
                gen::schedule(max_sched),
            )
        })
        .prop_map(|(specs, mut clients, schedule)| {
            // prologue for client 0: spawn the actors (parents first)
            let mut pro = vec![];
            for (i, s) in specs.iter().enumerate() {
                let by_client = i == 0 || s.parent.is_some() || !s.variant().is_linked();
                if by_client {
                    pro.push(Op::Spawn(i as u8));
                    if s.variant().is_instant() && i == 0 {
                        pro.push(Op::AwaitStart(i as u8));
                    }
                }
            }
            pro.extend(clients[0].drain(..));
            clients[0] = pro;
            Scenario { specs, clients, schedule }
        })
        .boxed()
}

#[derive(Default)]
struct ASt {
    open: Option<(Cb, usize)>,
    pre_enter: u32,
    pre_ok: Option<bool>,
    post_start_enter: u32,
    post_start_ok: Option<bool>,
    post_stop_enter: u32,
    handlers: u32,
    bad_exit: bool, // some callback exited Err / unwound
    killed_at: Option<usize>,
    interleaved_handlers: u32,
}

pub fn check_trace(sc: &Scenario, tr: &[Event]) -> Result<(bool, Vec<String>), Violation> {
    let mut st: HashMap<usize, ASt> = HashMap::new();
    let mut labels = vec![];
    // K points: OpEnd of a Kill op
    let op_of = |c: usize, i: usize| sc.clients.get(c).and_then(|ops| ops.get(i));
    for (pos, e) in tr.iter().enumerate() {
        match &e.ev {
            Ev::OpEnd { c, i, res } if *res != Res::Skipped => {
                if let Some(Op::Kill(to)) = op_of(*c, *i) {
                    let s = st.entry(*to as usize).or_default();
                    if s.killed_at.is_none() {
                        s.killed_at = Some(pos);
                    }
                }
            }
            Ev::ActDone { a, what, .. } if what == "kill_self" => {
                let s = st.entry(*a).or_default();
                if s.killed_at.is_none() {
                    s.killed_at = Some(pos);
                }
            }
            Ev::Enter { a, cb, .. } => {
                let s = st.entry(*a).or_default();
                if let Some((open, at)) = s.open {
                    return Err(viol(
                        "C01/overlap",
                        format!("actor {a}: {cb:?} entered at #{pos} while {open:?} (entered at #{at}) is still open"),
                    ));
                }
                s.open = Some((*cb, pos));
                match cb {
                    Cb::PreStart => {
                        s.pre_enter += 1;
                        if s.pre_enter > 1 {
                            return Err(viol("C01/pre_start-twice", format!("actor {a}: pre_start entered twice (#{pos})")));
                        }
                    }
                    Cb::PostStart => {
                        s.post_start_enter += 1;
                        if s.post_start_enter > 1 {
                            return Err(viol("C01/post_start-twice", format!("actor {a}: post_start entered twice (#{pos})")));
                        }
                        if s.pre_ok != Some(true) {
                            return Err(viol("C01/post_start-before-pre_start-ok", format!("actor {a}: post_start at #{pos} without successful pre_start")));
                        }
                    }
                    Cb::Handle | Cb::Sup => {
                        if s.post_start_ok != Some(true) {
                            return Err(viol(
                                "C01/handler-before-post_start-ok",
                                format!("actor {a}: {cb:?} at #{pos} before post_start returned Ok"),
                            ));
                        }
                        if s.post_stop_enter > 0 {
                            return Err(viol("C01/handler-after-post_stop", format!("actor {a}: {cb:?} at #{pos} after post_stop")));
                        }
                        s.handlers += 1;
                    }
                    Cb::PostStop => {
                        s.post_stop_enter += 1;
                        if s.post_stop_enter > 1 {
                            return Err(viol("C01/post_stop-twice", format!("actor {a}: post_stop entered twice (#{pos})")));
                        }
                        if s.post_start_ok != Some(true) {
                            return Err(viol("C01/post_stop-without-start", format!("actor {a}: post_stop at #{pos} but post_start never returned Ok")));
                        }
                        if s.bad_exit {
                            return Err(viol(
                                "C01/post_stop-after-failure",
                                format!("actor {a}: post_stop at #{pos} after a callback failed, panicked or was cancelled"),
                            ));
                        }
                        if let Some(k) = s.killed_at {
                            return Err(viol(
                                "C01/post_stop-after-kill",
                                format!("actor {a}: post_stop entered at #{pos} after kill() returned at #{k}"),
                            ));
                        }
                    }
                }
                if s.pre_enter == 0 {
                    return Err(viol("C01/callback-before-pre_start", format!("actor {a}: {cb:?} at #{pos} before pre_start")));
                }
            }
            Ev::Exit { a, cb, ok } => {
                let s = st.entry(*a).or_default();
                match s.open {
                    Some((open, at)) if open == *cb => {
                        // another task logged something between Enter and Exit?
                        if matches!(cb, Cb::Handle | Cb::Sup) {
                            let my_task = tr[at].task;
                            if tr[at..pos].iter().any(|x| x.task != my_task && x.task.is_some()) {
                                s.interleaved_handlers += 1;
                            }
                        }
                    }
                    _ => {
                        return Err(viol("C01/exit-mismatch", format!("actor {a}: Exit({cb:?}) at #{pos} but open = {:?}", s.open)));
                    }
                }
                s.open = None;
                if !ok {
                    s.bad_exit = true;
                }
                match cb {
                    Cb::PreStart => s.pre_ok = Some(*ok),
                    Cb::PostStart => s.post_start_ok = Some(*ok),
                    _ => {}
                }
            }
            Ev::Unwind { a, cb, .. } => {
                let s = st.entry(*a).or_default();
                match s.open {
                    Some((open, _)) if open == *cb => {}
                    _ => {
                        return Err(viol("C01/unwind-mismatch", format!("actor {a}: Unwind({cb:?}) at #{pos} but open = {:?}", s.open)));
                    }
                }
                s.open = None;
                s.bad_exit = true;
                match cb {
                    Cb::PreStart => s.pre_ok = Some(false),
                    Cb::PostStart => s.post_start_ok = Some(false),
                    _ => {}
                }
            }
            Ev::Resumed { a, cb } => {
                let s = st.entry(*a).or_default();
                match s.open {
                    Some((open, _)) if open == *cb => {}
                    _ => {
                        return Err(viol("C01/resume-outside-callback", format!("actor {a}: Resumed({cb:?}) at #{pos} but open = {:?}", s.open)));
                    }
                }
            }
            _ => {}
        }
    }

    // liveness-lite (only when nothing can kill / abort / fail anything in this scenario)
    let violent = sc.clients.iter().flatten().any(|o| matches!(o, Op::Kill(_) | Op::AbortTask(_)))
        || sc.specs.iter().any(|s| {
            let all = s
                .pre_start
                .iter()
                .chain(s.post_start.iter())
                .chain(s.post_stop.iter())
                .chain(s.handle.iter().flatten())
                .chain(s.sup.iter().flatten());
            let mut v = false;
            for a in all {
                if matches!(a, Act::KillSelf | Act::Panic | Act::Fail) {
                    v = true;
                }
            }
            v
        });
    let has_tree = sc.specs.iter().any(|s| s.variant().is_linked())
        || sc.specs.iter().flat_map(|s| s.post_start.iter().chain(s.handle.iter().flatten())).any(|a| matches!(a, Act::Spawn(_)));
    if !violent && !has_tree {
        for (a, s) in &st {
            if s.pre_ok == Some(true) && s.post_start_enter != 1 {
                return Err(viol("C01/post_start-missing", format!("actor {a}: pre_start Ok, nobody killed it, but post_start ran {} times", s.post_start_enter)));
            }
            // a graceful exit was requested by a stop op that completed
            let stopped = sc.clients.iter().enumerate().any(|(c, ops)| {
                ops.iter().enumerate().any(|(i, o)| {
                    matches!(o, Op::Stop(t) | Op::StopReason(t) | Op::Drain(t) if *t as usize == *a)
                        && tr.iter().any(|e| matches!(&e.ev, Ev::OpEnd{c: c2, i: i2, res} if *c2 == c && *i2 == i && *res != Res::Skipped))
                })
            });
            if stopped && s.post_start_ok == Some(true) && s.post_stop_enter != 1 {
                // the final sweep kills everybody, but only after the clients finished and the
                // system went quiet: a stop that returned long before must have been honoured
                labels.push("graceful-checked".to_string());
                return Err(viol("C01/post_stop-missing", format!("actor {a}: graceful stop requested, no kill/failure in scenario, post_stop ran {} times", s.post_stop_enter)));
            }
        }
        labels.push("liveness-checked".into());
    }

    let nontrivial = st.values().any(|s| s.handlers >= 2 && s.interleaved_handlers >= 1);
    if st.values().any(|s| s.post_stop_enter > 0) {
        labels.push("post_stop-ran".into());
    }
    if st.values().any(|s| s.bad_exit) {
        labels.push("bad-exit".into());
    }
    if st.values().any(|s| s.killed_at.is_some()) {
        labels.push("killed".into());
    }
    if sc.specs.iter().any(|s| s.variant().is_tl()) {
        labels.push("thread-local".into());
    }
    Ok((nontrivial, labels))
}

pub fn run_scenario(sc: &Scenario, want_trace: bool) -> Outcome {
    let ex = exec_scenario(sc, ExecOpts::default(), |_, _, _| {}, |_| vec![]);
    let tr = &ex.trace;
    let trace = if want_trace { fmt_trace(tr) } else { vec![] };
    let mk = |verdict, nontrivial, labels| Outcome { verdict, nontrivial, labels, trace: trace.clone() };
    if let Some(p) = &ex.client_panic {
        return mk(Verdict::Fail(viol("C01/client-panic", p.clone())), false, vec![]);
    }
    let budget = ex.end_main == DriveEnd::Budget || ex.end_sweep == DriveEnd::Budget;
    // liveness-lite rules look at the prefix before the final sweep, safety rules at everything
    let r = if budget { check_trace_safety_only(sc, tr).map(|_| (false, vec![])) } else { check_trace(sc, &tr[..ex.cut]).and_then(|r| check_trace_safety_only(sc, tr).map(|_| r)) };
    match r {
        Err(v) => mk(Verdict::Fail(v), false, vec![]),
        Ok((nontrivial, mut labels)) => {
            if budget {
                return mk(Verdict::Inconclusive("step budget".into()), false, vec![]);
            }
            if ex.end_main == DriveEnd::Stuck {
                return mk(Verdict::Fail(viol("C01/stuck-clients", "clients blocked forever although they only spawn and send")), nontrivial, labels);
            }
            if ex.end_sweep == DriveEnd::Stuck {
                return mk(Verdict::Fail(viol("C01/stuck-after-kill", "tasks still alive and blocked after every actor was killed")), nontrivial, labels);
            }
            labels.sort();
            labels.dedup();
            mk(Verdict::Pass, nontrivial, labels)
        }
    }
}

/// safety rules over the whole trace (including the final sweep); liveness-lite rules are
/// evaluated on the prefix only, hence this second pass ignores `*-missing`
fn check_trace_safety_only(sc: &Scenario, tr: &[Event]) -> Result<(), Violation> {
    match check_trace(sc, tr) {
        Err(v) if v.sig.ends_with("-missing") => Ok(()),
        Err(v) => Err(v),
        Ok(_) => Ok(()),
    }
}

impl Part for C01 {
    type Case = Scenario;
    const PROP: &'static str = "C01";
    const PART: &'static str = "e1";
    fn cases(tier: Tier) -> u32 {
        match tier {
            Tier::Quick => 200_000,
            Tier::Thorough => 1_000_000,
        }
    }
    fn strategy(tier: Tier) -> BoxedStrategy<Scenario> {
        scenario_strategy(tier)
    }
    fn run(case: &Scenario, want_trace: bool) -> Outcome {
        run_scenario(case, want_trace)
    }
    fn rule() -> &'static str {
        "generated (1-3 scripted actors incl. thread-local and child actors, 1-3 clients, schedule bytes) on the E1 gate; non-trivial = some actor ran >=2 handlers and another task logged an event between an Enter and its Exit; distinct = distinct hash of (scenario, schedule)"
    }
}

#[cfg(feature = "async-trait")]
impl Part for C01At {
    type Case = Scenario;
    const PROP: &'static str = "C01";
    const PART: &'static str = "e1-async-trait";
    const VARIANT: &'static str = "at";
    fn cases(tier: Tier) -> u32 {
        match tier {
            Tier::Quick => 80_000,
            Tier::Thorough => 300_000,
        }
    }
    fn strategy(tier: Tier) -> BoxedStrategy<Scenario> {
        scenario_strategy(tier)
    }
    fn run(case: &Scenario, want_trace: bool) -> Outcome {
        run_scenario(case, want_trace)
    }
    fn rule() -> &'static str {
        "same generator and oracle as part e1, harness and ractor built with feature async-trait"
    }
}
