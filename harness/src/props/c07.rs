//! C07 — drain processes everything accepted and admits nothing afterwards
//! (E2 part: controlled threads on a detached cell; E1 part: real actors)

use std::sync::{Arc, Mutex};

use proptest::prelude::*;
use ractor::verif::{DetachedMsg, DetachedPorts};
use ractor::{ActorCell, ActorId, ActorProcessingErr, ActorRef, MessagingErr};
use serde::{Deserialize, Serialize};

use crate::core::{viol, Violation};
use crate::e2::{run_threads, E2Run, Rec, Sched, ThreadCtx};
use crate::gen;
use crate::runner::*;

pub struct C07E2;
pub struct C07E2X;

// ---- message types -------------------------------------------------------------------

thread_local! {
    /// the cell a re-entrant `box_message` acts on
    static REENTRY_CELL: std::cell::RefCell<Option<ActorCell>> = const { std::cell::RefCell::new(None) };
    static REENTRY_LOG: std::cell::RefCell<Vec<(u32, bool)>> = const { std::cell::RefCell::new(Vec::new()) };
}

#[derive(Clone, Copy, Debug, PartialEq, Eq, Serialize, Deserialize)]
pub enum ReAct {
    /// send message `id` to the same cell while this message is being boxed
    Send(u32),
    /// drain the same cell while this message is being boxed
    Drain,
    /// boxing fails: `box_message` returns an error (the send holds its admission at that point)
    Fail,
    /// drain the same cell while this message is being boxed, then fail the boxing
    DrainFail,
}

pub struct Inner(pub u32);
impl ractor::Message for Inner {}

/// The cell's message type; boxing it may re-enter the send path (user code runs inside
/// `box_message`), then it travels as `Inner`
pub struct Outer {
    pub id: u32,
    pub re: Option<ReAct>,
}
impl ractor::Message for Outer {
    fn box_message(self, pid: &ActorId) -> Result<ractor::message::BoxedMessage, ractor::message::BoxedDowncastErr> {
        if let Some(re) = self.re {
            let cell = REENTRY_CELL.with(|c| c.borrow().clone());
            if let Some(cell) = cell {
                match re {
                    ReAct::Send(id) => {
                        let r = cell.send_message(Outer { id, re: None });
                        REENTRY_LOG.with(|l| l.borrow_mut().push((id, r.is_ok())));
                    }
                    ReAct::Drain => {
                        let _ = cell.drain();
                        REENTRY_LOG.with(|l| l.borrow_mut().push((u32::MAX, true)));
                    }
                    ReAct::Fail => return Err(ractor::message::BoxedDowncastErr),
                    ReAct::DrainFail => {
                        let _ = cell.drain();
                        REENTRY_LOG.with(|l| l.borrow_mut().push((u32::MAX, true)));
                        return Err(ractor::message::BoxedDowncastErr);
                    }
                }
            }
        }
        Inner(self.id).box_message(pid)
    }
    fn from_boxed(m: ractor::message::BoxedMessage) -> Result<Self, ractor::message::BoxedDowncastErr> {
        Inner::from_boxed(m).map(|i| Outer { id: i.0, re: None })
    }
}

pub struct Dummy;
#[cfg_attr(feature = "async-trait", ractor::async_trait)]
impl ractor::Actor for Dummy {
    type Msg = Outer;
    type State = ();
    type Arguments = ();
    async fn pre_start(&self, _: ActorRef<Outer>, _: ()) -> Result<(), ActorProcessingErr> {
        Ok(())
    }
}

// ---- case ----------------------------------------------------------------------------

#[derive(Clone, Debug, PartialEq, Eq, Serialize, Deserialize)]
pub enum Op2 {
    Send { id: u32, re: Option<ReAct> },
    SendSerialized { id: u32 },
    Drain,
    /// publish Stopping on the cell through the real set_status (an exit beginning)
    SetStopping,
    /// drop the port set (what the exiting actor task does)
    DropPorts,
}

#[derive(Clone, Debug, Serialize, Deserialize)]
pub struct Case {
    pub programs: Vec<Vec<Op2>>,
    pub schedule: Vec<u8>,
}

#[derive(Clone, Debug, PartialEq)]
pub enum R2 {
    Ok,
    /// the message was handed back (id)
    SendErr(u32),
    Other(String),
    /// results of re-entrant actions performed while boxing: (id, ok)
    OkRe(Vec<(u32, bool)>),
    SendErrRe(u32, Vec<(u32, bool)>),
    /// the send was admitted and then failed because boxing the message failed; re-entrant actions performed before
    BoxFailed(Vec<(u32, bool)>),
}

pub struct Shared {
    pub cell: ActorCell,
    pub ports: Mutex<Option<DetachedPorts>>,
}

fn exec(sh: &Shared, _ctx: &ThreadCtx, _tid: usize, op: &Op2) -> R2 {
    match op {
        Op2::Send { id, re } => {
            REENTRY_CELL.with(|c| *c.borrow_mut() = Some(sh.cell.clone()));
            REENTRY_LOG.with(|l| l.borrow_mut().clear());
            let r = sh.cell.send_message(Outer { id: *id, re: *re });
            let log = REENTRY_LOG.with(|l| std::mem::take(&mut *l.borrow_mut()));
            match r {
                Ok(()) => {
                    if log.is_empty() {
                        R2::Ok
                    } else {
                        R2::OkRe(log)
                    }
                }
                Err(MessagingErr::SendErr(m)) => {
                    if log.is_empty() {
                        R2::SendErr(m.id)
                    } else {
                        R2::SendErrRe(m.id, log)
                    }
                }
                Err(MessagingErr::InvalidActorType) if matches!(re, Some(ReAct::Fail | ReAct::DrainFail)) => R2::BoxFailed(log),
                Err(e) => R2::Other(format!("{e}")),
            }
        }
        Op2::SendSerialized { id } => {
            let msg = ractor::message::SerializedMessage::Cast { variant: "v".into(), args: id.to_le_bytes().to_vec(), metadata: None };
            match sh.cell.send_serialized(msg) {
                Ok(()) => R2::Ok,
                Err(e) => match *e {
                    MessagingErr::SendErr(ractor::message::SerializedMessage::Cast { args, .. }) => R2::SendErr(u32::from_le_bytes(args[..4].try_into().unwrap_or([255; 4]))),
                    other => R2::Other(format!("{other}")),
                },
            }
        }
        Op2::Drain => match sh.cell.drain() {
            Ok(()) => R2::Ok,
            Err(e) => R2::Other(format!("{e}")),
        },
        Op2::SetStopping => {
            ractor::verif::set_status(&sh.cell, ractor::ActorStatus::Stopping);
            R2::Ok
        }
        Op2::DropPorts => {
            let p = sh.ports.lock().unwrap().take();
            drop(p);
            R2::Ok
        }
    }
}

fn op_strategy(base: u32) -> BoxedStrategy<Vec<Op2>> {
    // a sender thread: 1-3 sends with ids base+k
    proptest::collection::vec(
        prop_oneof![
            10 => Just(0u8),
            2 => Just(1u8),
            1 => Just(2u8),
            1 => Just(3u8),
            2 => Just(4u8),
            1 => Just(5u8),
        ],
        1..=3,
    )
    .prop_map(move |kinds| {
        kinds
            .into_iter()
            .enumerate()
            .map(|(k, kind)| {
                let id = base + k as u32;
                match kind {
                    0 => Op2::Send { id, re: None },
                    1 => Op2::SendSerialized { id },
                    2 => Op2::Send { id, re: Some(ReAct::Send(id + 50)) },
                    3 => Op2::Send { id, re: Some(ReAct::Drain) },
                    4 => Op2::Send { id, re: Some(ReAct::Fail) },
                    _ => Op2::Send { id, re: Some(ReAct::DrainFail) },
                }
            })
            .collect()
    })
    .boxed()
}

pub fn strategy(_tier: Tier) -> BoxedStrategy<Case> {
    let drainer = proptest::collection::vec(prop_oneof![8 => Just(Op2::Drain), 1 => Just(Op2::SetStopping), 1 => Just(Op2::DropPorts)], 1..=2);
    (1usize..=3)
        .prop_flat_map(move |ns| {
            let senders: Vec<_> = (0..ns).map(|s| op_strategy(100 * (s as u32 + 1))).collect();
            (senders, proptest::collection::vec(drainer.clone(), 1..=2), gen::schedule(48))
        })
        .prop_map(|(mut programs, drainers, schedule)| {
            programs.extend(drainers);
            Case { programs, schedule }
        })
        .boxed()
}

pub struct Outcome2 {
    pub run: E2Run<R2>,
    pub mailbox: Vec<Option<u32>>, // None = drain marker
    pub admission: usize,
    pub ports_dropped: bool,
}

pub fn execute(case: &Case, sched: Sched) -> Outcome2 {
    let (cell, ports) = ractor::verif::detached_cell::<Dummy>(None).expect("detached cell");
    let sh = Arc::new(Shared { cell: cell.clone(), ports: Mutex::new(Some(ports)) });
    let run = run_threads(sh.clone(), case.programs.clone(), sched, exec);
    let mut mailbox = vec![];
    let mut ports_dropped = true;
    if let Some(p) = sh.ports.lock().unwrap().as_mut() {
        ports_dropped = false;
        while let Some(m) = p.try_recv_message() {
            match m {
                DetachedMsg::Drain => mailbox.push(None),
                DetachedMsg::Msg(b) => {
                    let id = if let Some(ractor::message::SerializedMessage::Cast { args, .. }) = &b.serialized_msg {
                        u32::from_le_bytes(args[..4].try_into().unwrap_or([255; 4]))
                    } else {
                        <Outer as ractor::Message>::from_boxed(b).map(|o| o.id).unwrap_or(u32::MAX)
                    };
                    mailbox.push(Some(id));
                }
            }
        }
    }
    let admission = ractor::verif::admission_word(&cell);
    // release the global registries (pid registry) held by the detached cell
    ractor::verif::set_status(&cell, ractor::ActorStatus::Stopped);
    Outcome2 { run, mailbox, admission, ports_dropped }
}

pub fn check(case: &Case, out: &Outcome2) -> Result<(bool, Vec<String>), Violation> {
    let recs: &Vec<Rec<R2>> = &out.run.recs;
    let op = |r: &Rec<R2>| &case.programs[r.tid][r.idx];
    let mut labels = vec![];
    if out.run.deadlock {
        return Err(viol("C07/harness-deadlock", "controlled threads deadlocked (no waiter exists in this part)"));
    }
    // collect send outcomes, including re-entrant ones
    let mut ok_ids: Vec<(u32, u64, u64)> = vec![]; // id, start, end
    let mut err_ids: Vec<u32> = vec![];
    let mut drain_returns: Vec<(u64, u64)> = vec![];
    let mut exit_started: Option<u64> = None;
    for r in recs {
        match (op(r), &r.res) {
            (Op2::Send { id, .. } | Op2::SendSerialized { id }, res) => {
                let (ok, back, re) = match res {
                    R2::BoxFailed(l) => (false, Some(*id), l.clone()),
                    R2::Ok => (true, None, vec![]),
                    R2::OkRe(l) => (true, None, l.clone()),
                    R2::SendErr(b) => (false, Some(*b), vec![]),
                    R2::SendErrRe(b, l) => (false, Some(*b), l.clone()),
                    R2::Other(e) => return Err(viol("C07/unexpected-send-result", format!("send of {id} returned {e}"))),
                };
                if ok {
                    ok_ids.push((*id, r.start, r.end));
                } else {
                    if back != Some(*id) {
                        return Err(viol("C07/wrong-message-handed-back", format!("send of {id} failed but handed back {back:?}")));
                    }
                    err_ids.push(*id);
                }
                for (rid, rok) in re {
                    if rid == u32::MAX {
                        drain_returns.push((r.start, r.end));
                        labels.push("reentrant-drain".to_string());
                    } else if rok {
                        ok_ids.push((rid, r.start, r.end));
                        labels.push("reentrant-send".to_string());
                    } else {
                        err_ids.push(rid);
                    }
                }
            }
            (Op2::Drain, R2::Ok) => drain_returns.push((r.start, r.end)),
            (Op2::Drain, other) => {
                // drain may only fail to enqueue its marker when the ports are gone
                if !out.ports_dropped {
                    return Err(viol("C07/drain-failed", format!("drain() returned {other:?} although the mailbox still exists")));
                }
                drain_returns.push((r.start, r.end));
            }
            (Op2::SetStopping | Op2::DropPorts, _) => {
                exit_started.get_or_insert(r.start);
            }
        }
    }
    // sends that began after a drain() had returned must fail
    for (id, start, _) in &ok_ids {
        if let Some((_, dend)) = drain_returns.iter().filter(|(_, e)| e < start).min_by_key(|(_, e)| *e) {
            return Err(viol("C07/admitted-after-drain", format!("send of {id} began (t={start}) after a drain() had returned (t={dend}) and was accepted")));
        }
    }
    if !out.ports_dropped {
        let mb = &out.mailbox;
        let markers = mb.iter().filter(|m| m.is_none()).count();
        let drained = !drain_returns.is_empty();
        if markers > 1 {
            return Err(viol("C07/marker-twice", format!("mailbox holds {markers} drain markers: {mb:?}")));
        }
        if drained && markers == 0 {
            return Err(viol("C07/marker-missing", format!("drain() returned but the mailbox holds no drain marker (actor would run forever): {mb:?}, admission word {:#x}", out.admission)));
        }
        if !drained && markers == 1 {
            return Err(viol("C07/marker-without-drain", format!("drain marker without any drain(): {mb:?}")));
        }
        if let Some(pos) = mb.iter().position(|m| m.is_none()) {
            if pos + 1 != mb.len() {
                return Err(viol("C07/message-behind-marker", format!("accepted messages sit behind the drain marker and would never be handled: {mb:?}")));
            }
        }
        for (id, _, _) in &ok_ids {
            let n = mb.iter().filter(|m| **m == Some(*id)).count();
            if n != 1 {
                return Err(viol(if n == 0 { "C07/accepted-message-lost" } else { "C07/accepted-message-duplicated" }, format!("send of {id} returned Ok but the mailbox holds it {n} times: {mb:?}")));
            }
        }
        for id in &err_ids {
            if mb.iter().any(|m| *m == Some(*id)) {
                return Err(viol("C07/rejected-message-enqueued", format!("send of {id} returned Err (message handed back) but it is in the mailbox: {mb:?}")));
            }
        }
        for m in mb.iter().flatten() {
            if !ok_ids.iter().any(|(id, _, _)| id == m) {
                return Err(viol("C07/mailbox-invented", format!("mailbox holds {m} which no successful send produced")));
            }
        }
        // order: per-thread FIFO and interval order (C02)
        let pos_of = |id: u32| mb.iter().position(|m| *m == Some(id));
        for (a, _, aend) in &ok_ids {
            for (b, bstart, _) in &ok_ids {
                if aend < bstart {
                    if let (Some(pa), Some(pb)) = (pos_of(*a), pos_of(*b)) {
                        if pa > pb {
                            return Err(viol("C07/order", format!("send {a} completed before send {b} began but they are queued in the opposite order: {mb:?}")));
                        }
                    }
                }
            }
        }
        if out.admission & ((1usize << (usize::BITS - 2)) - 1) != 0 {
            return Err(viol("C07/admission-count-leaked", format!("in-flight admission count is not zero at the end: {:#x}", out.admission)));
        }
    } else {
        labels.push("ports-dropped".into());
    }
    // non-trivial: a send interval overlaps a drain interval and a preemption happened
    let overlap = ok_ids.iter().map(|(_, s, e)| (*s, *e)).chain(recs.iter().filter(|r| matches!(op(r), Op2::Send { .. } | Op2::SendSerialized { .. })).map(|r| (r.start, r.end))).any(|(s, e)| drain_returns.iter().any(|(ds, de)| s < *de && *ds < e));
    Ok((overlap && out.run.preemptions > 0, labels))
}

fn run_case(case: &Case, want_trace: bool, sched: Sched) -> (Outcome, Vec<(usize, usize)>) {
    let out = execute(case, sched);
    let trace = if want_trace {
        let mut t: Vec<String> = out.run.recs.iter().map(|r| format!("thread {} op {} {:?} [{}..{}] -> {:?}", r.tid, r.idx, case.programs[r.tid][r.idx], r.start, r.end, r.res)).collect();
        t.push(format!("mailbox (None = drain marker): {:?}", out.mailbox));
        t.push(format!("admission word {:#x}, preemptions {}, points {}, labels {:?}", out.admission, out.run.preemptions, out.run.points, out.run.labels));
        t
    } else {
        vec![]
    };
    let log = out.run.choice_log.clone();
    let o = match check(case, &out) {
        Err(v) => Outcome { verdict: Verdict::Fail(v), nontrivial: false, labels: vec![], trace },
        Ok((nontrivial, labels)) => Outcome { verdict: Verdict::Pass, nontrivial, labels, trace },
    };
    (o, log)
}

impl Part for C07E2 {
    type Case = Case;
    const PROP: &'static str = "C07";
    const PART: &'static str = "e2";
    fn cases(tier: Tier) -> u32 {
        match tier {
            Tier::Quick => 40_000,
            Tier::Thorough => 1_000_000,
        }
    }
    fn strategy(tier: Tier) -> BoxedStrategy<Case> {
        strategy(tier)
    }
    fn run(case: &Case, want_trace: bool) -> Outcome {
        run_case(case, want_trace, Sched::Bytes(case.schedule.clone())).0
    }
    fn rule() -> &'static str {
        "generated programs for 2-5 controlled OS threads on a detached cell (real ActorCell::new): 1-3 sender threads x 1-3 typed/serialized sends incl. sends that re-enter the send path or drain while being boxed, 1-2 threads issuing drain()/Stopping/port-set drop; the schedule bytes decide at every verif_point! between the atomic steps of send / try_admit / admission drop / drain / send_drain_marker which thread runs next; oracle = mailbox content model (every accepted message exactly once and before the single, last marker; rejected ones absent and handed back; nothing admitted after a drain() returned; in-flight count zero); non-trivial = a send interval overlaps a drain interval and >=1 preemption happened"
    }
}

/// exhaustive enumeration of all schedules for a fixed family of small programs
#[derive(Clone, Debug, Serialize, Deserialize)]
pub struct XCase {
    pub programs: Vec<Vec<Op2>>,
    pub choices: Vec<usize>,
    pub max_preempt: u32,
}

fn small_programs() -> Vec<Vec<Vec<Op2>>> {
    let s = |id| Op2::Send { id, re: None };
    vec![
        vec![vec![s(1)], vec![Op2::Drain]],
        vec![vec![s(1)], vec![s(2)], vec![Op2::Drain]],
        vec![vec![s(1)], vec![Op2::Drain], vec![Op2::Drain]],
        vec![vec![Op2::Send { id: 1, re: Some(ReAct::Send(51)) }], vec![Op2::Drain]],
        vec![vec![Op2::SendSerialized { id: 1 }], vec![s(2)], vec![Op2::Drain]],
        vec![vec![s(1), s(2)], vec![Op2::Drain]],
        vec![vec![Op2::Send { id: 1, re: Some(ReAct::Fail) }], vec![Op2::Drain]],
        vec![vec![Op2::Send { id: 1, re: Some(ReAct::Fail) }], vec![s(2)], vec![Op2::Drain]],
        vec![vec![s(1), Op2::Send { id: 2, re: Some(ReAct::DrainFail) }]],
    ]
}

impl Part for C07E2X {
    type Case = XCase;
    const PROP: &'static str = "C07";
    const PART: &'static str = "e2-exhaustive";
    const EXHAUSTIVE: bool = true;
    fn cases(_tier: Tier) -> u32 {
        0
    }
    fn strategy(_tier: Tier) -> BoxedStrategy<XCase> {
        Just(XCase { programs: vec![], choices: vec![], max_preempt: 0 }).boxed()
    }
    fn enumerate(tier: Tier, visit: &mut dyn FnMut(&XCase, Outcome) -> bool) {
        // enumerate every schedule of every small program by depth-first re-execution
        // context bound (number of preemptions); every schedule within the bound is enumerated
        let bound = if tier == Tier::Quick { 2 } else { 4 };
        for programs in small_programs() {
            let case = Case { programs: programs.clone(), schedule: vec![] };
            let (_runs, complete) = crate::e2::enumerate_schedules(3_000_000, |choices| {
                let (mut o, log) = run_case(&case, false, Sched::Explicit(choices.clone(), Some(bound)));
                o.nontrivial = log.iter().any(|c| c.0 != 0);
                let xc = XCase { programs: programs.clone(), choices: log.iter().map(|c| c.0).collect(), max_preempt: bound };
                if !visit(&xc, o) {
                    return vec![];
                }
                log
            });
            if !complete {
                // the visitor stopped the enumeration (violation found)
                return;
            }
        }
    }
    fn run(case: &XCase, want_trace: bool) -> Outcome {
        let c = Case { programs: case.programs.clone(), schedule: vec![] };
        let mut o = run_case(&c, want_trace, Sched::Explicit(case.choices.clone(), Some(case.max_preempt))).0;
        o.nontrivial = case.choices.iter().any(|c| *c != 0);
        o
    }
    fn rule() -> &'static str {
        "bounded exhaustive generation: every schedule with at most 2 (quick) / 4 (thorough) preemptions (every choice at every verif_point! within that context bound) of nine small programs ({send|drain}, {send,send|drain}, {send|drain|drain}, {re-entrant send|drain}, {serialized send,send|drain}, {send;send|drain}, {send whose boxing fails|drain}, {failing send|send|drain}, {send; send that drains re-entrantly and then fails}) enumerated by depth-first re-execution and re-checked with the same mailbox oracle; non-trivial = schedule with >=1 preemption; distinct = distinct choice sequence"
    }
}

// =====================================================================================
// E1 part: real actors

pub struct C07E1;

mod e1 {
    use proptest::prelude::*;

    use crate::core::*;
    use crate::gate::DriveEnd;
    use crate::gen;
    use crate::runner::*;

    const S: u8 = 0;
    const T: u8 = 1;

    pub fn strategy(tier: Tier) -> BoxedStrategy<Scenario> {
        let max_sched = if tier == Tier::Quick { 128 } else { 256 };
        let hact = prop_oneof![8 => Just(Act::Yield), 3 => (0u16..3).prop_map(Act::Sleep), 4 => Just(Act::SendSelf), 1 => Just(Act::DrainSelf)];
        let sender = proptest::collection::vec(prop_oneof![6 => Just(true), 3 => Just(false)], 1..=8);
        let drainer = (0usize..12, prop_oneof![3 => Just(Op::Drain(T)), 1 => Just(Op::DrainAndWait { to: T, timeout_ms: None }), 1 => Just(Op::DrainAndWait { to: T, timeout_ms: Some(5) })], any::<bool>());
        let disturb = prop_oneof![5 => Just(None), 1 => Just(Some(Op::Stop(T))), 1 => Just(Some(Op::Kill(T)))];
        (
            prop_oneof![3 => Just(Variant::Linked), 2 => Just(Variant::TlLinked), 2 => Just(Variant::LinkedInstant), 1 => Just(Variant::TlLinkedInstant)],
            // a start-up that takes a while: the drain may arrive before the actor started or inside pre_start
            proptest::collection::vec(prop_oneof![3 => Just(Act::Yield), 1 => (0u16..3).prop_map(Act::Sleep)], 0..=2),
            proptest::collection::vec(proptest::collection::vec(hact, 0..=3), 1..=3),
            prop::bool::weighted(0.1),
            proptest::collection::vec(sender, 1..=3),
            proptest::collection::vec(drainer, 1..=2),
            (0usize..14, disturb),
            gen::schedule(max_sched),
        )
            .prop_map(|(tv, pre_start, mut handle, failing, senders, drainers, (ddelay, disturb), schedule)| {
                if failing {
                    handle.push(vec![Act::Yield, Act::Fail]);
                }
                let sup = ActorSpec { variant: Some(Variant::Spawn), sup_stops: false, ..Default::default() };
                let t = ActorSpec { variant: Some(tv), parent: Some(S), handle, pre_start, ..Default::default() };
                let mut clients = vec![vec![Op::Spawn(S), Op::Spawn(T)]];
                for ops in senders {
                    let mut v = vec![];
                    for (k, is_cast) in ops.into_iter().enumerate() {
                        v.push(if is_cast { Op::Cast { to: T, seq: k as u32 } } else { Op::Yield });
                    }
                    clients.push(v);
                }
                for (d, op, twice) in drainers {
                    let mut v = vec![Op::Yield; d];
                    v.push(op.clone());
                    if twice {
                        v.push(Op::Drain(T));
                    }
                    clients.push(v);
                }
                if let Some(op) = disturb {
                    let mut v = vec![Op::Yield; ddelay];
                    v.push(op);
                    clients.push(v);
                }
                Scenario { specs: vec![sup, t], clients, schedule }
            })
            .boxed()
    }

    pub fn check(sc: &Scenario, ex: &Exec) -> Result<(bool, Vec<String>), Violation> {
        let tr = &ex.trace;
        let t = T as usize;
        let op_of = |c: usize, i: usize| sc.clients.get(c).and_then(|ops| ops.get(i));
        let mut labels = vec![];
        let mut drain_ret: Option<usize> = None;
        let mut open: std::collections::HashMap<(usize, usize), usize> = Default::default();
        let mut ok_sent: Vec<((u16, u32), usize)> = vec![];
        let mut handled: std::collections::HashSet<(u16, u32)> = Default::default();
        let mut rejected_after = 0;
        let mut accepted_before = 0;
        for (pos, e) in tr.iter().enumerate() {
            match &e.ev {
                Ev::OpStart { c, i } => {
                    open.insert((*c, *i), pos);
                }
                Ev::OpEnd { c, i, res } => {
                    let start = open.remove(&(*c, *i)).unwrap_or(pos);
                    match op_of(*c, *i) {
                        Some(Op::Drain(T)) if *res == Res::Ok => {
                            drain_ret.get_or_insert(pos);
                        }
                        Some(Op::DrainAndWait { to: T, .. }) if matches!(res, Res::Ok | Res::Timeout) => {
                            // drain() itself returned at the latest here (it is the first thing the call does)
                            drain_ret.get_or_insert(pos);
                        }
                        Some(Op::Cast { to: T, seq }) => match res {
                            Res::Ok => {
                                if let Some(d) = drain_ret {
                                    if start > d {
                                        return Err(viol("C07/admitted-after-drain", format!("cast began at #{start} after drain() had returned at #{d} and was accepted")));
                                    }
                                }
                                accepted_before += 1;
                                ok_sent.push(((*c as u16, *seq), pos));
                            }
                            Res::SendErr => {
                                if drain_ret.is_some() {
                                    rejected_after += 1;
                                }
                            }
                            Res::Skipped => {}
                            other => return Err(viol("C07/unexpected-send-result", format!("{other:?}"))),
                        },
                        _ => {}
                    }
                }
                Ev::ActDone { a, what, res } if *a == t && what == "drain_self" && *res == Res::Ok => {
                    drain_ret.get_or_insert(pos);
                }
                Ev::ActSend { a, to, sender, seq, res } if *to == t => {
                    if *res == Res::Ok {
                        if let Some(d) = drain_ret {
                            if pos > d {
                                return Err(viol("C07/admitted-after-drain", format!("self-send by actor {a} at #{pos} after drain() had returned at #{d} was accepted")));
                            }
                        }
                        ok_sent.push(((*sender, *seq), pos));
                    }
                }
                Ev::Enter { a, cb: Cb::Handle, tag: Tag::Num { sender, seq } } if *a == t => {
                    handled.insert((*sender, *seq));
                }
                _ => {}
            }
        }
        let disturbed = sc.clients.iter().flatten().any(|o| matches!(o, Op::Stop(T) | Op::Kill(T)))
            || sc.specs[t].handle.iter().flatten().any(|a| matches!(a, Act::Fail | Act::Panic));
        let terminals: Vec<&Tag> = tr
            .iter()
            .filter_map(|e| match &e.ev {
                Ev::Enter { a: 0, cb: Cb::Sup, tag } if matches!(tag, Tag::Terminated { who: 1, .. } | Tag::Failed { who: 1, .. }) => Some(tag),
                _ => None,
            })
            .collect();
        if terminals.len() > 1 {
            return Err(viol("C07/stopped-twice", format!("supervisor saw {} terminal events: {terminals:?}", terminals.len())));
        }
        if ex.end_main == DriveEnd::Done && drain_ret.is_some() {
            let started = tr.iter().any(|e| matches!(&e.ev, Ev::Exit { a, cb: Cb::PostStart, ok: true } if *a == t));
            let stopped_before_sweep = tr[..ex.cut].iter().any(|e| matches!(&e.ev, Ev::Status { a, st: 6 } if *a == t));
            if started && !stopped_before_sweep {
                return Err(viol("C07/drain-never-finished", "drain() returned, the system went quiet, but the actor never stopped by itself"));
            }
            // the start itself must have been possible: spawned under a live supervisor, nothing refused it
            let spawn_ok = tr.iter().any(|e| matches!(&e.ev, Ev::OpEnd { c, i, res } if matches!(op_of(*c, *i), Some(Op::Spawn(T))) && *res == Res::Ok));
            if !started && spawn_ok && !disturbed {
                labels.push("drained-before-started".to_string());
            }
            if !disturbed && (started || spawn_ok) {
                labels.push("clean-drain".to_string());
                for ((s, q), pos) in &ok_sent {
                    if !handled.contains(&(*s, *q)) {
                        return Err(viol("C07/accepted-message-lost", format!("message ({s},{q}) was accepted at #{pos} but never handled although only a drain ended the actor")));
                    }
                }
                match terminals.first() {
                    Some(Tag::Terminated { reason: Some(r), .. }) if r == "Drained" => {}
                    other => return Err(viol("C07/wrong-exit-reason", format!("a clean drain ended with {other:?} instead of reason \"Drained\""))),
                }
            }
        }
        Ok((accepted_before >= 1 && rejected_after >= 1, labels))
    }

    pub fn run(case: &Scenario, want_trace: bool) -> Outcome {
        let sampler = std::rc::Rc::new(std::cell::RefCell::new(StatusSampler::default()));
        let s2 = sampler.clone();
        let ex = exec_scenario(case, ExecOpts::default(), move |w, _, _| s2.borrow_mut().sample(w), |_| vec![]);
        let trace = if want_trace { fmt_trace(&ex.trace) } else { vec![] };
        if let Some(p) = &ex.client_panic {
            return Outcome { verdict: Verdict::Fail(viol("C07/client-panic", p.clone())), nontrivial: false, labels: vec![], trace };
        }
        match check(case, &ex) {
            Err(v) => Outcome { verdict: Verdict::Fail(v), nontrivial: false, labels: vec![], trace },
            Ok((nontrivial, labels)) => {
                if ex.end_main == DriveEnd::Budget || ex.end_sweep == DriveEnd::Budget {
                    return Outcome { verdict: Verdict::Inconclusive("step budget".into()), nontrivial: false, labels, trace };
                }
                if ex.end_main == DriveEnd::Stuck {
                    return Outcome { verdict: Verdict::Fail(viol("C07/drain_and_wait-stuck", "a drain_and_wait() never returned: the drained actor runs forever")), nontrivial, labels, trace };
                }
                if ex.end_sweep == DriveEnd::Stuck {
                    return Outcome { verdict: Verdict::Fail(viol("C07/stuck-after-kill", "tasks blocked after the final sweep")), nontrivial, labels, trace };
                }
                Outcome { verdict: Verdict::Pass, nontrivial, labels, trace }
            }
        }
    }
}

impl Part for C07E1 {
    type Case = crate::core::Scenario;
    const PROP: &'static str = "C07";
    const PART: &'static str = "e1";
    fn cases(tier: Tier) -> u32 {
        match tier {
            Tier::Quick => 60_000,
            Tier::Thorough => 1_500_000,
        }
    }
    fn strategy(tier: Tier) -> BoxedStrategy<Self::Case> {
        e1::strategy(tier)
    }
    fn run(case: &Self::Case, want_trace: bool) -> Outcome {
        e1::run(case, want_trace)
    }
    fn rule() -> &'static str {
        "generated real actor (Send/thread-local) under a logging supervisor with handler scripts (awaits, self-sends, self-drain, rarely failing), 1-3 sender clients, 1-2 drainers (drain, drain_and_wait with/without timeout, repeated), optional stop/kill; no final kill before judging: the drained actor has to stop by itself; oracle = nothing admitted after drain() returned, every accepted message handled and exactly one terminal event with reason Drained on a clean drain, at most one terminal event otherwise; non-trivial = >=1 message accepted before and >=1 rejected after the drain"
    }
}

/// The same controlled-thread generator and mailbox oracle, registered for C02 (once, in order,
/// handed back on failure) — the marker rules are a superset
pub struct C02E2;
impl Part for C02E2 {
    type Case = Case;
    const PROP: &'static str = "C02";
    const PART: &'static str = "e2";
    fn cases(tier: Tier) -> u32 {
        match tier {
            Tier::Quick => 20_000,
            Tier::Thorough => 500_000,
        }
    }
    fn strategy(tier: Tier) -> BoxedStrategy<Case> {
        strategy(tier)
    }
    fn run(case: &Case, want_trace: bool) -> Outcome {
        let mut o = run_case(case, want_trace, Sched::Bytes(case.schedule.clone())).0;
        if let Verdict::Fail(v) = &mut o.verdict {
            v.sig = v.sig.replace("C07/", "C02/");
        }
        // non-trivial for C02: two sends by different threads overlapped
        o
    }
    fn rule() -> &'static str {
        "controlled OS threads on a detached cell (same generator as C07 part e2): 1-3 sender threads x 1-3 sends racing with drain/Stopping/port-set drop at every verif_point! of the send path; oracle = every accepted message exactly once in the mailbox, per-thread FIFO and interval order, rejected messages handed back and absent; non-trivial = a send interval overlaps a drain interval and >=1 preemption happened"
    }
}

// ---- free-running part -------------------------------------------------------------------

pub struct C07Free;

#[derive(Clone, Debug, Serialize, Deserialize)]
pub struct FreeCase {
    pub programs: Vec<Vec<Op2>>,
    pub spin: Vec<u32>,
    pub rounds: u16,
}

impl Part for C07Free {
    type Case = FreeCase;
    const PROP: &'static str = "C07";
    const PART: &'static str = "free";
    const DETERMINISTIC: bool = false;
    fn cases(tier: Tier) -> u32 {
        match tier {
            Tier::Quick => 1_600,
            Tier::Thorough => 80_000,
        }
    }
    fn strategy(_tier: Tier) -> BoxedStrategy<FreeCase> {
        (2usize..=4, 4usize..=14, proptest::collection::vec(0u32..600, 6), any::<bool>())
            .prop_map(|(ns, len, spin, two_drains)| {
                let mut programs: Vec<Vec<Op2>> = (0..ns)
                    .map(|s| (0..len).map(|k| if (s + k) % 5 == 4 { Op2::SendSerialized { id: (100 * (s + 1) + k) as u32 } } else { Op2::Send { id: (100 * (s + 1) + k) as u32, re: None } }).collect())
                    .collect();
                programs.push(if two_drains { vec![Op2::Drain, Op2::Drain] } else { vec![Op2::Drain] });
                FreeCase { programs, spin, rounds: 25 }
            })
            .boxed()
    }
    fn run(case: &FreeCase, want_trace: bool) -> Outcome {
        let c = Case { programs: case.programs.clone(), schedule: vec![] };
        let mut nontrivial = false;
        for _ in 0..case.rounds {
            let (cell, ports) = ractor::verif::detached_cell::<Dummy>(None).expect("detached cell");
            let sh = Arc::new(Shared { cell: cell.clone(), ports: Mutex::new(Some(ports)) });
            let run = crate::e2::run_threads_free(sh.clone(), c.programs.clone(), case.spin.clone(), exec);
            let mut mailbox = vec![];
            if let Some(p) = sh.ports.lock().unwrap().as_mut() {
                while let Some(m) = p.try_recv_message() {
                    match m {
                        DetachedMsg::Drain => mailbox.push(None),
                        DetachedMsg::Msg(b) => {
                            let id = if let Some(ractor::message::SerializedMessage::Cast { args, .. }) = &b.serialized_msg {
                                u32::from_le_bytes(args[..4].try_into().unwrap_or([255; 4]))
                            } else {
                                <Outer as ractor::Message>::from_boxed(b).map(|o| o.id).unwrap_or(u32::MAX)
                            };
                            mailbox.push(Some(id));
                        }
                    }
                }
            }
            let admission = ractor::verif::admission_word(&cell);
            ractor::verif::set_status(&cell, ractor::ActorStatus::Stopped);
            let out = Outcome2 { run, mailbox, admission, ports_dropped: false };
            match check(&c, &out) {
                Err(mut v) => {
                    v.msg = format!("(free-running threads; observed history) {}", v.msg);
                    let trace = if want_trace {
                        out.run.recs.iter().map(|r| format!("thread {} op {} [{}..{}] -> {:?}", r.tid, r.idx, r.start, r.end, r.res)).collect()
                    } else {
                        vec![]
                    };
                    return Outcome { verdict: Verdict::Fail(v), nontrivial: false, labels: vec![], trace };
                }
                Ok((nt, _)) => nontrivial |= nt,
            }
        }
        Outcome { verdict: Verdict::Pass, nontrivial, labels: vec![], trace: vec![] }
    }
    fn rule() -> &'static str {
        "2-4 free-running sender threads x 4-14 typed/serialized sends racing one drainer thread (1-2 drain calls) on a detached cell, released from a barrier with generated busy-wait offsets, 25 rounds per generated case; no schedule control (reaches windows without verif_point!); same mailbox oracle as part e2; a violation is reported with the observed history; non-trivial = a send interval overlapped a drain interval"
    }
}

// =====================================================================================
// free-running part over the REAL actor loop: a sender is held between admission and enqueue
//
// The e2 parts work on detached cells (no actor task), so what the actor loop does while a drain is in
// progress and a send is still in flight is outside their reach; on the E1 gate a send is atomic. Here
// a real Send actor runs on its own OS thread (current-thread runtime), sender threads send a message
// whose `box_message` busy-waits for a generated time — the send path calls it after the admission and
// before the enqueue — and a drainer thread calls `drain()`.

pub mod loopfree {
    use std::sync::{Arc, Mutex};

    use proptest::prelude::*;
    use ractor::{Actor, ActorId, ActorProcessingErr, ActorRef};
    use serde::{Deserialize, Serialize};

    use crate::core::viol;
    use crate::runner::*;

    pub struct HoldInner(pub u32);
    impl ractor::Message for HoldInner {}

    /// a message whose boxing takes a while (the sender then sits between admission and enqueue)
    pub struct HoldMsg {
        pub id: u32,
        pub spin: u32,
    }
    impl ractor::Message for HoldMsg {
        fn box_message(self, pid: &ActorId) -> Result<ractor::message::BoxedMessage, ractor::message::BoxedDowncastErr> {
            for _ in 0..self.spin {
                std::hint::spin_loop();
            }
            HoldInner(self.id).box_message(pid)
        }
        fn from_boxed(m: ractor::message::BoxedMessage) -> Result<Self, ractor::message::BoxedDowncastErr> {
            HoldInner::from_boxed(m).map(|i| HoldMsg { id: i.0, spin: 0 })
        }
    }

    #[derive(Default)]
    struct LoopActor;
    #[cfg_attr(feature = "async-trait", ractor::async_trait)]
    impl Actor for LoopActor {
        type Msg = HoldMsg;
        type State = Arc<Mutex<Vec<u32>>>;
        type Arguments = Arc<Mutex<Vec<u32>>>;
        async fn pre_start(&self, _m: ActorRef<HoldMsg>, a: Self::Arguments) -> Result<Self::State, ActorProcessingErr> {
            Ok(a)
        }
        async fn handle(&self, _m: ActorRef<HoldMsg>, msg: HoldMsg, st: &mut Self::State) -> Result<(), ActorProcessingErr> {
            st.lock().unwrap().push(msg.id);
            Ok(())
        }
    }

    #[derive(Clone, Debug, Serialize, Deserialize)]
    pub struct LoopCase {
        /// per sender thread: (spin before the send, spin inside box_message) in units of 64 iterations
        pub senders: Vec<Vec<(u16, u16)>>,
        pub drain_spin: u16,
        pub rounds: u8,
        /// the actor is a thread-local one on a real `ThreadLocalActorSpawner` thread
        #[serde(default)]
        pub tl: bool,
    }

    pub struct C07LoopFree;

    fn one_round(case: &LoopCase) -> Result<(usize, usize), crate::core::Violation> {
        let handled: Arc<Mutex<Vec<u32>>> = Arc::new(Mutex::new(vec![]));
        let (tx, rx) = std::sync::mpsc::channel::<ActorRef<HoldMsg>>();
        let h2 = handled.clone();
        let tl = case.tl;
        let actor_thread = std::thread::spawn(move || {
            let rt = tokio::runtime::Builder::new_current_thread().enable_time().build().expect("rt");
            rt.block_on(async move {
                let (actor, handle) = if tl {
                    let sp = ractor::thread_local::ThreadLocalActorSpawner::new();
                    <LoopActor as ractor::thread_local::ThreadLocalActor>::spawn(None, h2, sp).await.expect("spawn")
                } else {
                    Actor::spawn(None, LoopActor, h2).await.expect("spawn")
                };
                let _ = tx.send(actor);
                // the actor must stop by itself once drained; a generous real-time bound keeps a hang from blocking the shard
                tokio::time::timeout(std::time::Duration::from_secs(5), handle).await.is_ok()
            })
        });
        let actor = rx.recv().expect("actor ref");
        let barrier = Arc::new(std::sync::Barrier::new(case.senders.len() + 1));
        let oks: Arc<Mutex<Vec<(u32, bool)>>> = Arc::new(Mutex::new(vec![]));
        let mut threads = vec![];
        for (t, prog) in case.senders.iter().enumerate() {
            let (a, b, o, prog) = (actor.clone(), barrier.clone(), oks.clone(), prog.clone());
            threads.push(std::thread::spawn(move || {
                b.wait();
                for (k, (pre, hold)) in prog.iter().enumerate() {
                    for _ in 0..(*pre as u32 * 64) {
                        std::hint::spin_loop();
                    }
                    let id = (t * 100 + k) as u32;
                    let r = a.send_message(HoldMsg { id, spin: *hold as u32 * 64 });
                    o.lock().unwrap().push((id, r.is_ok()));
                }
            }));
        }
        {
            let (a, b, spin) = (actor.clone(), barrier.clone(), case.drain_spin);
            threads.push(std::thread::spawn(move || {
                b.wait();
                for _ in 0..(spin as u32 * 64) {
                    std::hint::spin_loop();
                }
                let _ = a.drain();
            }));
        }
        for t in threads {
            let _ = t.join();
        }
        let stopped = actor_thread.join().unwrap_or(false);
        if !stopped {
            // liveness under a wall-clock bound: not judged
            actor.kill();
            eprintln!("C07 free-loop: actor did not stop within 5 s of the round (not judged): {case:?} status={:?}", actor.get_status());
            return Ok((usize::MAX, 0));
        }
        let handled = handled.lock().unwrap().clone();
        let oks = oks.lock().unwrap().clone();
        for (id, ok) in &oks {
            let n = handled.iter().filter(|h| *h == id).count();
            if *ok && n != 1 {
                return Err(viol("C07/accepted-message-lost", format!("(free-running threads against the real actor loop; observed history) send of message {id} returned Ok but it was handled {n} times; sends {oks:?}, handled {handled:?}")));
            }
            if !*ok && n != 0 {
                return Err(viol("C07/rejected-message-handled", format!("(free-running threads; observed history) send of message {id} was refused but the message was handled")));
            }
        }
        Ok((oks.iter().filter(|x| x.1).count(), oks.iter().filter(|x| !x.1).count()))
    }

    impl Part for C07LoopFree {
        type Case = LoopCase;
        const PROP: &'static str = "C07";
        const PART: &'static str = "free-loop";
        const DETERMINISTIC: bool = false;
        fn cases(tier: Tier) -> u32 {
            match tier {
                Tier::Quick => 1_600,
                Tier::Thorough => 50_000,
            }
        }
        fn strategy(_tier: Tier) -> BoxedStrategy<LoopCase> {
            let send = (0u16..40, prop_oneof![2 => Just(0u16), 3 => 1u16..200, 1 => 200u16..2000]);
            (proptest::collection::vec(proptest::collection::vec(send, 1..=4), 1..=3), 0u16..400, prop_oneof![2 => Just(false), 1 => Just(true)])
                .prop_map(|(senders, drain_spin, tl)| LoopCase { senders, drain_spin, rounds: 6, tl })
                .boxed()
        }
        fn run(case: &LoopCase, _want_trace: bool) -> Outcome {
            let (mut acc, mut rej) = (0, 0);
            for _ in 0..case.rounds {
                match one_round(case) {
                    Err(v) => return Outcome { verdict: Verdict::Fail(v), nontrivial: false, labels: vec![], trace: vec![] },
                    Ok((usize::MAX, _)) => return Outcome::pass(false, vec!["actor-not-stopped-in-5s".to_string()]),
                    Ok((a, r)) => {
                        acc += a;
                        rej += r;
                    }
                }
            }
            Outcome::pass(acc >= 1 && rej >= 1, vec![if case.tl { "thread-local".to_string() } else { "send".to_string() }])
        }
        fn rule() -> &'static str {
            "a real Send actor on its own OS thread (1 case in 3: a thread-local actor on a real ThreadLocalActorSpawner thread), 1-3 sender threads (1-4 sends each, generated busy-wait before the send and inside the message's box_message, i.e. between admission and enqueue) and a drainer thread released from a barrier, 6 rounds per case; oracle on the observed history: every send that returned Ok is handled exactly once, a refused one never, the actor stops by itself (a 5 s wall-clock bound on that is not judged); non-trivial = sends were both accepted and refused over the rounds"
        }
    }
}
