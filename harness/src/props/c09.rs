//! C09 — every RPC completes and replies are never cross-wired (E1, virtual clock)

use std::collections::HashMap;

use proptest::prelude::*;

use crate::core::*;
use crate::gate::DriveEnd;
use crate::gen;
use crate::runner::*;

pub struct C09;

const FWD: u8 = 2;

pub fn strategy(tier: Tier) -> BoxedStrategy<Scenario> {
    let max_sched = if tier == Tier::Quick { 128 } else { 256 };
    let policy = prop_oneof![
        4 => Just(ReplyPolicy::Now),
        3 => (0u8..4).prop_map(ReplyPolicy::AfterYields),
        3 => (0u16..30).prop_map(ReplyPolicy::AfterMs),
        2 => (0u8..3).prop_map(ReplyPolicy::FromTask),
        1 => Just(ReplyPolicy::Drop),
        1 => Just(ReplyPolicy::Keep),
    ];
    let callee = (prop_oneof![3 => Just(Variant::Spawn), 1 => Just(Variant::TlSpawn)], proptest::collection::vec(policy, 1..=4)).prop_map(|(v, reply)| ActorSpec {
        variant: Some(v),
        reply,
        handle: vec![vec![Act::Yield]],
        ..Default::default()
    });
    let tmo = prop_oneof![2 => Just(None), 3 => (1u16..40).prop_map(Some), 1 => Just(Some(0u16))];
    let call = prop_oneof![
        8 => (gen::idx(2), tmo.clone()).prop_map(|(to, t)| (0u8, to, t)),
        2 => tmo.clone().prop_map(|t| (1u8, 0, t)),
        2 => (gen::idx(2), tmo).prop_map(|(to, t)| (2u8, to, t)),
    ];
    let caller = proptest::collection::vec((0usize..4, call), 1..=3);
    let exit = prop_oneof![
        3 => Just(None),
        1 => gen::idx(2).prop_map(|a| Some(Op::Stop(a))),
        1 => gen::idx(2).prop_map(|a| Some(Op::Kill(a))),
        1 => gen::idx(2).prop_map(|a| Some(Op::Drain(a))),
        1 => gen::idx(2).prop_map(|a| Some(Op::AbortTask(a))),
    ];
    (callee.clone(), callee, proptest::collection::vec(caller, 2..=5), (0usize..12, exit), gen::schedule(max_sched))
        .prop_map(|(c0s, c1s, callers, (edelay, exit), schedule)| {
            let fwd = ActorSpec { variant: Some(Variant::Spawn), ..Default::default() };
            let specs = vec![c0s, c1s, fwd];
            let mut clients = vec![vec![Op::Spawn(0), Op::Spawn(1), Op::Spawn(FWD)]];
            for (ci, ops) in callers.into_iter().enumerate() {
                let c = ci + 1;
                let mut v = vec![];
                for (k, (d, (kind, to, t))) in ops.into_iter().enumerate() {
                    for _ in 0..d {
                        v.push(Op::Yield);
                    }
                    let id = (c * 100 + k) as u32;
                    v.push(match kind {
                        0 => Op::Call { to, id, timeout_ms: t },
                        1 => Op::MultiCall { to: vec![0, 1], id, timeout_ms: t },
                        _ => Op::CallFwd { to, fwd: FWD, id, timeout_ms: t },
                    });
                }
                clients.push(v);
            }
            let mut ce = vec![Op::Yield; edelay];
            ce.extend(exit);
            clients.push(ce);
            // callees die in the end: nobody may hang
            clients.push(vec![Op::Sleep(80), Op::Kill(0), Op::Kill(1)]);
            Scenario { specs, clients, schedule }
        })
        .boxed()
}

pub fn check(sc: &Scenario, ex: &Exec) -> Result<(bool, Vec<String>), Violation> {
    let tr = &ex.trace;
    let op_of = |c: usize, i: usize| sc.clients.get(c).and_then(|ops| ops.get(i));
    let mut labels = vec![];
    // replies logged by callees: (a, id) -> (pos, t, v, ok)
    let mut replies: HashMap<(usize, u32), Vec<(usize, u64, u64, bool)>> = HashMap::new();
    let mut fwd_seen: HashMap<u64, usize> = HashMap::new();
    let mut open: HashMap<(usize, usize), usize> = HashMap::new();
    let mut intervals: Vec<(usize, usize)> = vec![];
    for (pos, e) in tr.iter().enumerate() {
        match &e.ev {
            Ev::Reply { a, id, v, ok } => replies.entry((*a, *id)).or_default().push((pos, e.t_ns, *v, *ok)),
            Ev::Enter { a, cb: Cb::Handle, tag: Tag::Fwd { v } } if *a == FWD as usize => *fwd_seen.entry(*v).or_default() += 1,
            Ev::OpStart { c, i } => {
                open.insert((*c, *i), pos);
            }
            _ => {}
        }
    }
    for (k, v) in &replies {
        if v.len() > 1 {
            return Err(viol("C09/harness-double-reply", format!("{k:?} replied {} times", v.len())));
        }
    }
    let judge = |what: &str, callee: usize, id: u32, tmo: Option<u16>, res: &Res, start: usize, end: usize| -> Result<(), Violation> {
        let elapsed = tr[end].t_ns - tr[start].t_ns;
        let deadline = tmo.map(|ms| tr[start].t_ns + ms as u64 * 1_000_000);
        let rep = replies.get(&(callee, id)).and_then(|v| v.first()).copied();
        if let Some(ms) = tmo {
            if elapsed > ms as u64 * 1_000_000 {
                return Err(viol("C09/answer-after-timeout", format!("{what} id {id}: answered after {elapsed}ns with a timeout of {ms}ms")));
            }
        }
        match res {
            Res::Success(v) => {
                if *v != reply_value(callee, id) {
                    return Err(viol("C09/cross-wired", format!("{what} id {id} to actor {callee} returned {v}, expected {}", reply_value(callee, id))));
                }
                match rep {
                    Some((p, _, rv, true)) if p < end && rv == *v => {}
                    other => return Err(viol("C09/success-without-reply", format!("{what} id {id}: Success({v}) but the callee's reply record is {other:?}"))),
                }
            }
            Res::Timeout => {
                let Some(ms) = tmo else {
                    return Err(viol("C09/timeout-without-timeout", format!("{what} id {id}: Timeout although no timeout was given")));
                };
                if elapsed != ms as u64 * 1_000_000 {
                    return Err(viol("C09/timeout-at-wrong-time", format!("{what} id {id}: Timeout after {elapsed}ns, timeout {ms}ms")));
                }
                if let Some((p, t, _, true)) = rep {
                    if p < end && t < deadline.unwrap() {
                        return Err(viol("C09/timeout-despite-reply", format!("{what} id {id}: callee replied at t={t}ns, strictly before the deadline, but the caller got Timeout")));
                    }
                }
            }
            Res::SenderError => {
                if let Some((p, _, _, true)) = rep {
                    if p < end {
                        return Err(viol("C09/sender-error-despite-reply", format!("{what} id {id}: the callee's reply was accepted, but the caller got SenderError")));
                    }
                }
            }
            Res::SendErr => {
                if rep.is_some() {
                    return Err(viol("C09/rejected-but-answered", format!("{what} id {id}: send failed but the callee replied")));
                }
            }
            other => return Err(viol("C09/unexpected-result", format!("{what} id {id}: {other:?}"))),
        }
        Ok(())
    };
    let mut n_calls = 0;
    for (pos, e) in tr.iter().enumerate() {
        if let Ev::OpEnd { c, i, res } = &e.ev {
            let start = open.get(&(*c, *i)).copied().unwrap_or(pos);
            match op_of(*c, *i) {
                Some(Op::Call { to, id, timeout_ms }) if *res != Res::Skipped => {
                    n_calls += 1;
                    intervals.push((start, pos));
                    judge("call", *to as usize, *id, *timeout_ms, res, start, pos)?;
                }
                Some(Op::MultiCall { to, id, timeout_ms }) if *res != Res::Skipped => {
                    intervals.push((start, pos));
                    match res {
                        Res::Multi(v) => {
                            if v.len() != to.len() {
                                return Err(viol("C09/multi-length", format!("multi_call over {} actors returned {} results", to.len(), v.len())));
                            }
                            labels.push("multi_call".to_string());
                            for (k, r) in v.iter().enumerate() {
                                judge("multi_call", to[k] as usize, *id, *timeout_ms, r, start, pos)?;
                            }
                        }
                        Res::SendErr | Res::ChannelClosed => {}
                        other => return Err(viol("C09/unexpected-result", format!("multi_call: {other:?}"))),
                    }
                }
                Some(Op::CallFwd { to, id, timeout_ms, .. }) if *res != Res::Skipped => {
                    intervals.push((start, pos));
                    labels.push("call_and_forward".to_string());
                    let v = reply_value(*to as usize, *id);
                    let n = fwd_seen.get(&v).copied().unwrap_or(0);
                    // forwarded value handled by the target (judged at quiescence)
                    match res {
                        Res::Ok => {
                            judge("call_and_forward", *to as usize, *id, *timeout_ms, &Res::Success(v), start, pos)?;
                            if ex.end_main == DriveEnd::Done && n != 1 {
                                return Err(viol("C09/forward-count", format!("call_and_forward id {id} succeeded but the target handled the forwarded value {n} times")));
                            }
                        }
                        Res::Timeout | Res::SenderError | Res::SendErr => {
                            if *res != Res::SendErr {
                                judge("call_and_forward", *to as usize, *id, *timeout_ms, res, start, pos)?;
                            }
                            if n != 0 {
                                return Err(viol("C09/forward-without-success", format!("call_and_forward id {id} returned {res:?} but the target received the value {n} times")));
                            }
                        }
                        other => return Err(viol("C09/unexpected-result", format!("call_and_forward: {other:?}"))),
                    }
                }
                _ => {}
            }
        }
    }
    // forwarded values nobody asked for
    for (v, _) in &fwd_seen {
        let expected = sc.clients.iter().flatten().any(|o| matches!(o, Op::CallFwd { to, id, .. } if reply_value(*to as usize, *id) == *v));
        if !expected {
            return Err(viol("C09/forward-invented", format!("forward target handled value {v} that no call_and_forward could have produced")));
        }
    }
    let overlapping = intervals.iter().enumerate().any(|(k, a)| intervals.iter().skip(k + 1).any(|b| a.0 < b.1 && b.0 < a.1));
    let exit_with_queue = sc.clients.iter().flatten().any(|o| matches!(o, Op::Stop(_) | Op::Kill(_) | Op::Drain(_) | Op::AbortTask(_)) ) && n_calls > 0;
    if exit_with_queue {
        labels.push("callee-exit".into());
    }
    Ok((overlapping, labels))
}

impl Part for C09 {
    type Case = Scenario;
    const PROP: &'static str = "C09";
    const PART: &'static str = "e1";
    fn cases(tier: Tier) -> u32 {
        match tier {
            Tier::Quick => 100_000,
            Tier::Thorough => 2_000_000,
        }
    }
    fn strategy(tier: Tier) -> BoxedStrategy<Scenario> {
        strategy(tier)
    }
    fn run(case: &Scenario, want_trace: bool) -> Outcome {
        let ex = exec_scenario(case, ExecOpts::default(), |_, _, _| {}, |_| vec![]);
        let trace = if want_trace { fmt_trace(&ex.trace) } else { vec![] };
        if let Some(p) = &ex.client_panic {
            return Outcome { verdict: Verdict::Fail(viol("C09/client-panic", p.clone())), nontrivial: false, labels: vec![], trace };
        }
        match check(case, &ex) {
            Err(v) => Outcome { verdict: Verdict::Fail(v), nontrivial: false, labels: vec![], trace },
            Ok((nontrivial, labels)) => {
                if ex.end_main == DriveEnd::Budget || ex.end_sweep == DriveEnd::Budget {
                    return Outcome { verdict: Verdict::Inconclusive("step budget".into()), nontrivial: false, labels, trace };
                }
                if ex.end_main == DriveEnd::Stuck {
                    return Outcome { verdict: Verdict::Fail(viol("C09/caller-stuck", "a caller hangs forever although every callee was killed")), nontrivial, labels, trace };
                }
                if ex.end_sweep == DriveEnd::Stuck {
                    return Outcome { verdict: Verdict::Fail(viol("C09/stuck-after-kill", "tasks blocked after the final sweep")), nontrivial, labels, trace };
                }
                Outcome { verdict: Verdict::Pass, nontrivial, labels, trace }
            }
        }
    }
    fn rule() -> &'static str {
        "generated callees (Send/thread-local) with a reply policy per call id (now, after n yields, after d ms, from a spawned task, drop the port, keep the port in state), 2-5 concurrent callers issuing call / multi_call / call_and_forward with generated timeouts on the virtual clock, a generated callee exit (stop/kill/drain/task abort) and a final kill; oracle = reply-function model f(callee,id) + exact virtual-time timeout rule + forward-exactly-once + no stuck caller; non-trivial = two calls outstanding at once"
    }
}
