//! C17 — nothing from a peer takes effect before authentication.
//!
//! * `e0-fsm` / `e0-fsm-exhaustive`: generated / enumerated sequences of authentication
//!   messages against both handshake state machines, compared step by step with a reference
//!   machine written from the protocol description (independent SHA-256).
//! * `e3-adversary`: a real node server whose session faces a harness-played peer that sends
//!   generated frame sequences (auth in any order and with any digest, node and control
//!   messages at any time, malformed frames); oracle over everything observable through
//!   public APIs.

use std::sync::{Arc, Mutex};

use proptest::prelude::*;
use ractor::Actor;
use ractor_cluster::verif::{AuthPhase, ClientFsm, ServerFsm};
use serde::{Deserialize, Serialize};

use crate::cluster::*;
use crate::core::{fmt_trace, log, run_in_runtime_opts, take_trace, viol, Ev, Violation};
use crate::gate::DriveEnd;
use crate::gen;
use crate::runner::*;

pub const REAL: &str = "cookie";

#[derive(Clone, Copy, Debug, Serialize, Deserialize, PartialEq, Eq)]
pub enum Dg {
    Correct,
    WrongCookie,
    /// the digest of a cookie that differs from the real one in one place only (see `near_cookie`)
    Near(u8),
    Empty,
    Prefix(u8),
    Extended,
    Flip(u8),
    Zero32,
}

/// a cookie that is not `real` but close to it: a suffix added, the last byte changed or dropped, the first byte
/// changed, a byte beyond position 60 / 32 / 16 changed (long cookies)
pub fn near_cookie(real: &str, k: u8) -> Vec<u8> {
    let mut c = real.as_bytes().to_vec();
    let n = c.len();
    match k % 7 {
        1 if n > 0 => c[n - 1] ^= 1,
        2 if n > 0 => {
            c.pop();
        }
        3 if n > 0 => c[0] ^= 0x20,
        4 if n > 61 => c[61] ^= 2,
        5 if n > 33 => c[33] ^= 4,
        6 if n > 17 => c[17] ^= 8,
        _ => c.push(b'x'),
    }
    c
}

/// SHA-256(challenge big-endian ‖ cookie bytes), computed independently of the crate
pub fn sha_digest_bytes(cookie: &[u8], challenge: u32) -> Vec<u8> {
    use sha2::Digest;
    let mut h = sha2::Sha256::new();
    h.update(challenge.to_be_bytes());
    h.update(cookie);
    h.finalize().to_vec()
}

pub fn digest(dg: Dg, real: &str, challenge: u32) -> Vec<u8> {
    let good = sha_digest(real, challenge);
    match dg {
        Dg::Correct => good,
        Dg::WrongCookie => sha_digest(&format!("{real}x"), challenge),
        Dg::Near(k) => sha_digest_bytes(&near_cookie(real, k), challenge),
        Dg::Empty => vec![],
        Dg::Prefix(k) => good[..(k as usize % 32)].to_vec(),
        Dg::Extended => {
            let mut g = good;
            g.push(0);
            g
        }
        Dg::Flip(i) => {
            let mut g = good;
            g[(i as usize / 8) % 32] ^= 1 << (i % 8);
            g
        }
        Dg::Zero32 => vec![0; 32],
    }
}

#[derive(Clone, Debug, Serialize, Deserialize, PartialEq)]
pub enum AMsg {
    Name { who: u8, nonce: u8 },
    ServerStatus(i32),
    ClientStatus(bool),
    ServerChallenge(u32),
    ClientChallenge(Dg, u32),
    ServerAck(Dg),
    EmptyAuth,
}

pub const NAMES: [&str; 3] = ["b@host", "evil@host", "a@host"];

fn name_msg(who: u8, nonce: u8) -> auth::NameMessage {
    let n = NAMES[who as usize % NAMES.len()];
    auth::NameMessage { name: n.to_string(), flags: flags(), connection_string: format!("{}:1", n.replace('@', "-")), connection_id: nonce as u64 }
}

/// `server_challenge`: the challenge the (server) FSM under test issued; `client_challenge`: the
/// one the (client) FSM under test issued
pub fn build_auth(m: &AMsg, real: &str, server_challenge: u32, client_challenge: u32) -> auth::AuthenticationMessage {
    use auth::authentication_message::Msg;
    let msg = match m {
        AMsg::Name { who, nonce } => Some(Msg::Name(name_msg(*who, *nonce))),
        AMsg::ServerStatus(s) => Some(Msg::ServerStatus(auth::ServerStatus { status: *s })),
        AMsg::ClientStatus(b) => Some(Msg::ClientStatus(auth::ClientStatus { status: *b })),
        AMsg::ServerChallenge(c) => Some(Msg::ServerChallenge(auth::Challenge { name: NAMES[0].to_string(), flags: flags(), challenge: *c, connection_string: "b-host:1".into() })),
        AMsg::ClientChallenge(dg, c) => Some(Msg::ClientChallenge(auth::ChallengeReply { challenge: *c, digest: digest(*dg, real, server_challenge) })),
        AMsg::ServerAck(dg) => Some(Msg::ServerAck(auth::ChallengeAck { digest: digest(*dg, real, client_challenge) })),
        AMsg::EmptyAuth => None,
    };
    auth::AuthenticationMessage { msg }
}

pub fn amsg_strategy() -> BoxedStrategy<AMsg> {
    let dg = prop_oneof![
        4 => Just(Dg::Correct),
        2 => Just(Dg::WrongCookie),
        3 => (0u8..7).prop_map(Dg::Near),
        2 => Just(Dg::Empty),
        2 => (0u8..32).prop_map(Dg::Prefix),
        1 => Just(Dg::Extended),
        2 => any::<u8>().prop_map(Dg::Flip),
        1 => Just(Dg::Zero32),
    ];
    prop_oneof![
        3 => (0u8..3, 0u8..4).prop_map(|(who, nonce)| AMsg::Name { who, nonce }),
        3 => prop_oneof![Just(0i32), Just(1), Just(2), Just(3), Just(4), Just(77), Just(-1)].prop_map(AMsg::ServerStatus),
        2 => any::<bool>().prop_map(AMsg::ClientStatus),
        3 => any::<u32>().prop_map(AMsg::ServerChallenge),
        4 => (dg.clone(), any::<u32>()).prop_map(|(d, c)| AMsg::ClientChallenge(d, c)),
        4 => dg.prop_map(AMsg::ServerAck),
        1 => Just(AMsg::EmptyAuth),
    ]
    .boxed()
}

// ---------------------------------------------------------------------------------
// E0: the two state machines against a reference machine

#[derive(Clone, Debug, Serialize, Deserialize, PartialEq)]
pub enum FOp {
    Msg(AMsg),
    /// what the session does once the node server allowed the connection
    StartChallenge,
}

#[derive(Clone, Debug, Serialize, Deserialize)]
pub struct FsmCase {
    pub server: bool,
    /// server only: start in "waiting on the client status" (the session enters it after an `alive` status)
    pub start_wcs: bool,
    pub cookie: u8,
    pub ops: Vec<FOp>,
}

pub const LONG_HEX: &str = "9f86d081884c7d659a2feaa0c55ad015a3bf4f1b2b0b822cd15d6c15b0f00a08";
pub const LONG_TEXT: &str = "correct horse battery staple / correct horse battery staple / correct horse battery staple / 0123456789";
const COOKIES: [&str; 6] = ["cookie", "", "a much longer shared secret with spaces", "κουλουράκι", LONG_HEX, LONG_TEXT];
/// cookies of the node in the adversary part: the short one, a 64-character hex string, a 100+ character phrase
pub const ADV_COOKIES: [&str; 3] = [REAL, LONG_HEX, LONG_TEXT];

#[derive(Clone, Copy, Debug, PartialEq, Eq)]
enum M {
    SWaitName,
    SHaveName,
    SWaitStatus,
    SWaitReply,
    SOk,
    CWaitStatus,
    CWaitChallenge,
    CWaitAck,
    COk,
    Close,
}

fn phase_of(m: M) -> AuthPhase {
    match m {
        M::SWaitName => AuthPhase::SWaitingOnPeerName,
        M::SHaveName => AuthPhase::SHavePeerName,
        M::SWaitStatus => AuthPhase::SWaitingOnClientStatus,
        M::SWaitReply => AuthPhase::SWaitingOnClientChallengeReply,
        M::SOk => AuthPhase::SOk,
        M::CWaitStatus => AuthPhase::CWaitingForServerStatus,
        M::CWaitChallenge => AuthPhase::CWaitingForServerChallenge,
        M::CWaitAck => AuthPhase::CWaitingForServerChallengeAck,
        M::COk => AuthPhase::COk,
        M::Close => AuthPhase::Close,
    }
}

pub fn run_fsm(case: &FsmCase) -> Outcome {
    let cookie = COOKIES[case.cookie as usize % COOKIES.len()];
    let mut labels = vec![];
    let mut presented = false;
    let mut reached_ok = false;
    let fail = |sig: &str, msg: String| Outcome { verdict: Verdict::Fail(viol(sig, msg)), nontrivial: false, labels: vec![], trace: vec![] };
    if case.server {
        let mut fsm = if case.start_wcs { ServerFsm::waiting_on_client_status() } else { ServerFsm::init() };
        let mut m = if case.start_wcs { M::SWaitStatus } else { M::SWaitName };
        let mut was_closed = false;
        for (i, op) in case.ops.iter().enumerate() {
            let ch = fsm.challenge();
            let (next, nm) = match op {
                FOp::StartChallenge => (fsm.start_challenge(cookie), if matches!(m, M::SHaveName | M::SWaitStatus) { M::SWaitReply } else { M::Close }),
                FOp::Msg(am) => {
                    let wire = build_auth(am, cookie, ch.map(|c| c.0).unwrap_or(0), 0);
                    let nm = match (m, am) {
                        (M::SWaitName, AMsg::Name { .. }) => M::SHaveName,
                        (M::SWaitStatus, AMsg::ClientStatus(true)) => M::SWaitReply,
                        (M::SWaitReply, AMsg::ClientChallenge(dg, _)) => {
                            presented = true;
                            if *dg == Dg::Correct {
                                M::SOk
                            } else {
                                M::Close
                            }
                        }
                        _ => M::Close,
                    };
                    (fsm.next(wire, cookie), nm)
                }
            };
            if was_closed && next.phase() != AuthPhase::Close {
                return fail("C17/fsm-close-not-absorbing", format!("server FSM left Close at op {i} ({op:?}) -> {:?}", next.phase()));
            }
            if next.phase() != phase_of(nm) {
                let sig = if next.phase() == AuthPhase::SOk { "C17/fsm-authenticated-wrongly" } else { "C17/fsm-diverges" };
                return fail(sig, format!("server FSM: op {i} {op:?} in {m:?}: implementation -> {:?}, reference -> {:?}", next.phase(), phase_of(nm)));
            }
            if nm == M::SWaitReply {
                // the challenge's expected digest is the SHA-256 of challenge ‖ cookie
                let (c, d) = next.challenge().expect("challenge");
                if d.to_vec() != sha_digest(cookie, c) {
                    return fail("C17/fsm-digest", format!("server expects digest {d:?} for challenge {c}, SHA256(challenge||cookie) is different"));
                }
            }
            if nm == M::SOk {
                reached_ok = true;
                if let FOp::Msg(AMsg::ClientChallenge(_, theirs)) = op {
                    if next.ack_digest().map(|d| d.to_vec()) != Some(sha_digest(cookie, *theirs)) {
                        return fail("C17/fsm-digest", "server ack digest is not SHA256(client challenge||cookie)".into());
                    }
                }
            }
            was_closed = nm == M::Close;
            m = nm;
            fsm = next;
        }
    } else {
        let mut fsm = ClientFsm::init();
        let mut m = M::CWaitStatus;
        let mut was_closed = false;
        for (i, op) in case.ops.iter().enumerate() {
            let ch = fsm.challenge();
            let (next, nm) = match op {
                FOp::StartChallenge => continue,
                FOp::Msg(am) => {
                    let wire = build_auth(am, cookie, 0, ch.map(|c| c.1).unwrap_or(0));
                    let nm = match (m, am) {
                        (M::CWaitStatus, AMsg::ServerStatus(_)) => M::CWaitChallenge,
                        (M::CWaitChallenge, AMsg::ServerChallenge(_)) => M::CWaitAck,
                        (M::CWaitAck, AMsg::ServerAck(dg)) => {
                            presented = true;
                            if *dg == Dg::Correct {
                                M::COk
                            } else {
                                M::Close
                            }
                        }
                        _ => M::Close,
                    };
                    (fsm.next(wire, cookie), nm)
                }
            };
            if was_closed && next.phase() != AuthPhase::Close {
                return fail("C17/fsm-close-not-absorbing", format!("client FSM left Close at op {i} ({op:?}) -> {:?}", next.phase()));
            }
            if next.phase() != phase_of(nm) {
                let sig = if next.phase() == AuthPhase::COk { "C17/fsm-authenticated-wrongly" } else { "C17/fsm-diverges" };
                return fail(sig, format!("client FSM: op {i} {op:?} in {m:?}: implementation -> {:?}, reference -> {:?}", next.phase(), phase_of(nm)));
            }
            if nm == M::CWaitAck {
                if let FOp::Msg(AMsg::ServerChallenge(c)) = op {
                    let (reply, ours, expected) = next.challenge().expect("challenge");
                    if reply.to_vec() != sha_digest(cookie, *c) || expected.to_vec() != sha_digest(cookie, ours) {
                        return fail("C17/fsm-digest", "client digests are not SHA256(challenge||cookie)".into());
                    }
                }
            }
            if nm == M::COk {
                reached_ok = true;
            }
            was_closed = nm == M::Close;
            m = nm;
            fsm = next;
        }
    }
    if presented {
        labels.push("digest-presented".to_string());
    }
    if reached_ok {
        labels.push("authenticated".to_string());
    }
    Outcome::pass(presented, labels)
}

pub struct C17Fsm;

impl Part for C17Fsm {
    type Case = FsmCase;
    const PROP: &'static str = "C17";
    const PART: &'static str = "e0-fsm";
    fn cases(tier: Tier) -> u32 {
        match tier {
            Tier::Quick => 200_000,
            Tier::Thorough => 6_000_000,
        }
    }
    fn strategy(_tier: Tier) -> BoxedStrategy<FsmCase> {
        // half of the sequences start with the legitimate prefix so that the digest step is reached
        let op = prop_oneof![8 => amsg_strategy().prop_map(FOp::Msg), 2 => Just(FOp::StartChallenge)];
        let dgs = prop_oneof![4 => Just(Dg::Correct), 2 => Just(Dg::WrongCookie), 3 => (0u8..7).prop_map(Dg::Near), 2 => Just(Dg::Empty), 2 => (0u8..32).prop_map(Dg::Prefix), 1 => Just(Dg::Extended), 2 => any::<u8>().prop_map(Dg::Flip), 1 => Just(Dg::Zero32)];
        (any::<bool>(), any::<bool>(), 0u8..6, any::<bool>(), dgs, any::<u32>(), proptest::collection::vec(op, 0..8))
            .prop_map(|(server, start_wcs, cookie, legit_prefix, dg, c, tail)| {
                let mut ops = vec![];
                if legit_prefix {
                    if server {
                        if start_wcs {
                            ops.push(FOp::Msg(AMsg::ClientStatus(true)));
                        } else {
                            ops.push(FOp::Msg(AMsg::Name { who: 0, nonce: 1 }));
                            ops.push(FOp::StartChallenge);
                        }
                        ops.push(FOp::Msg(AMsg::ClientChallenge(dg, c)));
                    } else {
                        ops.push(FOp::Msg(AMsg::ServerStatus(0)));
                        ops.push(FOp::Msg(AMsg::ServerChallenge(c)));
                        ops.push(FOp::Msg(AMsg::ServerAck(dg)));
                    }
                }
                ops.extend(tail);
                FsmCase { server, start_wcs, cookie, ops }
            })
            .boxed()
    }
    fn run(case: &FsmCase, _want_trace: bool) -> Outcome {
        run_fsm(case)
    }
    fn rule() -> &'static str {
        "generated sequences (legitimate prefix in half of them, then up to 7 arbitrary ops) of authentication messages (name, server status incl. invalid enum values, client status, server challenge, client challenge / server ack with digest kinds correct, wrong-cookie, empty, every proper prefix, extended, single bit flip, zeros; empty message) and start-challenge calls, four cookies incl. empty and non-ASCII, against ServerAuthenticationProcess / ClientAuthenticationProcess; oracle = reference machine written from auth.proto (any unexpected message -> Close, Close absorbing, Ok only after the exact SHA-256(challenge||cookie) digest computed independently); non-trivial = a digest was presented in the digest-checking state"
    }
}

pub struct C17FsmX;

fn alphabet() -> Vec<FOp> {
    let mut v = vec![
        FOp::StartChallenge,
        FOp::Msg(AMsg::Name { who: 0, nonce: 1 }),
        FOp::Msg(AMsg::ServerStatus(0)),
        FOp::Msg(AMsg::ServerStatus(2)),
        FOp::Msg(AMsg::ClientStatus(true)),
        FOp::Msg(AMsg::ClientStatus(false)),
        FOp::Msg(AMsg::ServerChallenge(7)),
        FOp::Msg(AMsg::EmptyAuth),
    ];
    for dg in [Dg::Correct, Dg::WrongCookie, Dg::Empty, Dg::Prefix(31), Dg::Prefix(1), Dg::Extended, Dg::Flip(0)] {
        v.push(FOp::Msg(AMsg::ClientChallenge(dg, 9)));
        v.push(FOp::Msg(AMsg::ServerAck(dg)));
    }
    v
}

impl Part for C17FsmX {
    type Case = FsmCase;
    const PROP: &'static str = "C17";
    const PART: &'static str = "e0-fsm-exhaustive";
    const EXHAUSTIVE: bool = true;
    fn cases(_tier: Tier) -> u32 {
        0
    }
    fn strategy(_tier: Tier) -> BoxedStrategy<FsmCase> {
        Just(FsmCase { server: true, start_wcs: false, cookie: 0, ops: vec![] }).boxed()
    }
    fn run(case: &FsmCase, _want_trace: bool) -> Outcome {
        run_fsm(case)
    }
    fn enumerate(tier: Tier, visit: &mut dyn FnMut(&FsmCase, Outcome) -> bool) {
        let alpha = alphabet();
        let max_len = if tier == Tier::Quick { 4 } else { 5 };
        for (server, start_wcs) in [(true, false), (true, true), (false, false)] {
            let mut idx: Vec<usize> = vec![];
            loop {
                let case = FsmCase { server, start_wcs, cookie: 0, ops: idx.iter().map(|i| alpha[*i].clone()).collect() };
                let out = run_fsm(&case);
                if !visit(&case, out) {
                    return;
                }
                // next sequence in length-lexicographic order
                let mut k = idx.len();
                loop {
                    if k == 0 {
                        idx = vec![0; idx.len() + 1];
                        break;
                    }
                    k -= 1;
                    if idx[k] + 1 < alpha.len() {
                        idx[k] += 1;
                        for j in k + 1..idx.len() {
                            idx[j] = 0;
                        }
                        break;
                    }
                }
                if idx.len() > max_len {
                    break;
                }
            }
        }
    }
    fn rule() -> &'static str {
        "every sequence of length <= 4 (quick) / <= 5 (thorough) over a 22-symbol alphabet (each message kind, seven digest kinds for both digest-carrying messages, start-challenge) for the server machine from both entry states and the client machine, same reference-machine oracle; non-trivial = a digest was presented in the digest-checking state"
    }
}

// ---------------------------------------------------------------------------------
// E3: a real session against a harness-played peer

#[derive(Clone, Debug, Serialize, Deserialize, PartialEq)]
pub enum Target {
    Probe(u8),
    Sneaky,
    NodeServer,
    Session,
    Unknown,
}

#[derive(Clone, Debug, Serialize, Deserialize, PartialEq)]
pub enum AStep {
    /// a raw authentication message (digests relative to the challenge the node issued last)
    Auth(AMsg),
    /// the next message of the legitimate handshake for the current point (after waiting for
    /// what the node has to send first); `knows` = computed with the real cookie
    Honest { knows: bool },
    Cast { target: Target, good: bool },
    Call { target: Target, good: bool },
    Reply { to: Target },
    Spawn { named: bool },
    Terminate,
    PgJoin,
    PgLeave,
    Enumerate,
    NodeSessions,
    Ready,
    Ping,
    Pong,
    /// a network message without content
    EmptyNet,
    /// wait (bounded, virtual time) for the node to write something
    Wait,
    /// a new remotable probe appears on the node while the session is up
    LocalSpawn,
}

#[derive(Clone, Debug, Serialize, Deserialize)]
pub struct AdvCase {
    /// true: the peer dialed the node (server-side session); false: the node dialed the peer
    pub server_side: bool,
    pub name: u8,
    pub steps: Vec<AStep>,
    pub frag: Vec<u8>,
    pub schedule: Vec<u8>,
    /// which of `ADV_COOKIES` the node uses
    #[serde(default)]
    pub cookie: u8,
    /// which near-miss cookie a peer that does not know the cookie computes its digests with
    #[serde(default)]
    pub near: u8,
}

#[derive(Default)]
struct AdvObs {
    /// index of the step that completed a legitimate handshake with the real cookie
    legit_at: Option<usize>,
    /// an authentication message that must close the session was sent at this step
    poisoned_at: Option<usize>,
    /// (step, target pid, is it a well-formed message for a probe)
    sent_casts: Vec<(usize, u64, bool)>,
    listed_while_unauth: Vec<String>,
    proxy_names: Vec<String>,
    groups: Vec<String>,
    honest_done: u32,
    dead: bool,
}

fn probe_wire(step: usize, call: bool, good: bool) -> (String, Vec<u8>) {
    // ProbeMsg::Note(sender, seq) / Ask(sender, seq): two length-prefixed u32
    let mut args = vec![];
    for v in [step as u32, 1u32] {
        args.extend_from_slice(&4u64.to_be_bytes());
        args.extend_from_slice(&v.to_be_bytes());
    }
    if !good {
        args.truncate(9);
    }
    ((if call { "Ask" } else { "Note" }).to_string(), args)
}

pub struct C17Adv;

fn adv_strategy(tier: Tier) -> BoxedStrategy<AdvCase> {
    let max = if tier == Tier::Quick { 10 } else { 16 };
    let target = prop_oneof![5 => (0u8..4).prop_map(Target::Probe), 3 => Just(Target::Sneaky), 1 => Just(Target::NodeServer), 1 => Just(Target::Session), 1 => Just(Target::Unknown)];
    let step = prop_oneof![
        6 => amsg_strategy().prop_map(AStep::Auth),
        8 => prop_oneof![5 => Just(true), 1 => Just(false)].prop_map(|knows| AStep::Honest { knows }),
        6 => (target.clone(), prop_oneof![4 => Just(true), 1 => Just(false)]).prop_map(|(target, good)| AStep::Cast { target, good }),
        4 => (target.clone(), prop_oneof![4 => Just(true), 1 => Just(false)]).prop_map(|(target, good)| AStep::Call { target, good }),
        1 => target.prop_map(|to| AStep::Reply { to }),
        3 => any::<bool>().prop_map(|named| AStep::Spawn { named }),
        1 => Just(AStep::Terminate),
        3 => Just(AStep::PgJoin),
        1 => Just(AStep::PgLeave),
        1 => Just(AStep::Enumerate),
        1 => Just(AStep::NodeSessions),
        1 => Just(AStep::Ready),
        1 => Just(AStep::Ping),
        1 => Just(AStep::Pong),
        1 => Just(AStep::EmptyNet),
        3 => Just(AStep::Wait),
        1 => Just(AStep::LocalSpawn),
    ];
    (any::<bool>(), prop_oneof![3 => Just(0u8), 2 => Just(1u8), 1 => Just(2u8)], proptest::collection::vec(step, 1..=max), proptest::collection::vec(prop_oneof![Just(0u8), Just(1), Just(2), Just(3), Just(7), Just(64)], 0..4), gen::schedule(160), prop_oneof![2 => Just(0u8), 1 => Just(1u8), 1 => Just(2u8)], 0u8..7)
        .prop_map(|(server_side, name, steps, frag, schedule, cookie, near)| AdvCase { server_side, name, steps, frag, schedule, cookie, near })
        .boxed()
}

struct AdvResult {
    obs: AdvObs,
    got: Vec<Got>,
    events: Vec<EvtRec>,
    final_listed: Vec<String>,
    final_auth_state: Option<bool>,
    registered_names: Vec<String>,
    remote_group_members: usize,
    announced: Vec<u64>,
    probe_pids: Vec<u64>,
    sneaky_pid: u64,
    end: DriveEnd,
    quiet: bool,
    trace: Vec<String>,
}

fn run_adv(case: &AdvCase, want_trace: bool) -> AdvResult {
    let case = case.clone();
    run_in_runtime_opts(&case.schedule.clone(), true, move |mut env| async move {
        env.sched.steps_left = 60_000;
        let got: GotLog = Arc::new(Mutex::new(vec![]));
        let obs = Arc::new(Mutex::new(AdvObs::default()));
        let shared: Arc<Mutex<Option<(Node, Vec<u64>, u64)>>> = Arc::new(Mutex::new(None));
        let link = Link::new("adv");
        link.set_frag(1, case.frag.clone());
        let peer = link.raw(1);
        let (got2, obs2, shared2, case2, peer2, link2) = (got.clone(), obs.clone(), shared.clone(), case.clone(), peer.clone(), link.clone());
        let script = async move {
            let node = spawn_node(0, "a@host", ADV_COOKIES[case.cookie as usize % 3], None).await;
            let mut probe_pids = vec![];
            let mut probes = vec![];
            for i in 0..2usize {
                let (p, _) = Actor::spawn(None, Probe { idx: i, got: got2.clone(), pre_join: None }, ()).await.expect("probe");
                ractor::pg::join("c17".to_string(), vec![p.get_cell()]);
                probe_pids.push(p.get_id().pid());
                probes.push(p);
            }
            let (sneaky, _) = Actor::spawn(None, Sneaky { idx: 9, got: got2.clone() }, ()).await.expect("sneaky");
            let sneaky_pid = sneaky.get_id().pid();
            node.open(link2.end(0), case2.server_side);
            let server_pid = node.server.get_id().pid();
            let mut frames_seen: Vec<NetworkMessage> = vec![];
            // what the node told us so far
            let mut node_challenge: Option<u32> = None; // server-side: the node's challenge
            let mut node_reply: Option<(u32, Vec<u8>)> = None; // client-side: the node's challenge + its digest
            let mut status_seen = false;
            let mut name_seen = false;
            // handshake bookkeeping for `legit`
            let mut auth_sent: Vec<(usize, AMsg)> = vec![];
            let mut our_challenge: u32 = 0;
            let mut spawned_extra = 0usize;
            let absorb = |frames: Vec<NetworkMessage>, frames_seen: &mut Vec<NetworkMessage>, node_challenge: &mut Option<u32>, node_reply: &mut Option<(u32, Vec<u8>)>, status_seen: &mut bool, name_seen: &mut bool| {
                for f in frames {
                    if let Some(meta::network_message::Message::Auth(a)) = &f.message {
                        match &a.msg {
                            Some(auth::authentication_message::Msg::ServerChallenge(c)) => *node_challenge = Some(c.challenge),
                            Some(auth::authentication_message::Msg::ServerStatus(_)) => *status_seen = true,
                            Some(auth::authentication_message::Msg::ClientChallenge(r)) => *node_reply = Some((r.challenge, r.digest.clone())),
                            Some(auth::authentication_message::Msg::Name(_)) => *name_seen = true,
                            _ => {}
                        }
                    }
                    frames_seen.push(f);
                }
            };
            for (i, step) in case2.steps.iter().enumerate() {
                absorb(peer2.recv(), &mut frames_seen, &mut node_challenge, &mut node_reply, &mut status_seen, &mut name_seen);
                let session_pid = node.evts().iter().find(|e| e.kind == EvKind::Opened && e.peer_addr.starts_with("adv")).map(|e| e.actor.pid()).unwrap_or(0);
                let pid_of_target = |t: &Target| -> u64 {
                    match t {
                        Target::Probe(k) => probe_pids[*k as usize % probe_pids.len()],
                        Target::Sneaky => sneaky_pid,
                        Target::NodeServer => server_pid,
                        Target::Session => session_pid,
                        Target::Unknown => 4_000_000_000,
                    }
                };
                let peer3 = peer2.clone();
                let send_auth = move |am: &AMsg, nc: Option<u32>, nr: Option<u32>, auth_sent: &mut Vec<(usize, AMsg)>| {
                    let wire = build_auth(am, ADV_COOKIES[case2.cookie as usize % 3], nc.unwrap_or(0), nr.unwrap_or(0));
                    log(Ev::Note(format!("peer sends auth {am:?}")));
                    auth_sent.push((i, am.clone()));
                    peer3.send(&NetworkMessage { message: Some(meta::network_message::Message::Auth(wire)) });
                };
                match step {
                    AStep::Auth(am) => send_auth(am, node_challenge, node_reply.as_ref().map(|r| r.0), &mut auth_sent),
                    AStep::Honest { knows } => {
                        // wait for what the node must say first
                        let need = |nc: &Option<u32>, nr: &Option<(u32, Vec<u8>)>, ss: bool, ns: bool, sent: usize| -> bool {
                            if case2.server_side {
                                match sent {
                                    0 => true,
                                    _ => ss && nc.is_some(),
                                }
                            } else {
                                match sent {
                                    0 => ns,
                                    1 => true,
                                    _ => nr.is_some(),
                                }
                            }
                        };
                        let sent = obs2.lock().unwrap().honest_done as usize;
                        let mut waited = 0;
                        while !need(&node_challenge, &node_reply, status_seen, name_seen, sent) && waited < 6 && !peer2.node_hung_up() {
                            let _ = tokio::time::timeout(std::time::Duration::from_millis(20), peer2.readable()).await;
                            absorb(peer2.recv(), &mut frames_seen, &mut node_challenge, &mut node_reply, &mut status_seen, &mut name_seen);
                            waited += 1;
                        }
                        let dg = if *knows { Dg::Correct } else { Dg::Near(case2.near) };
                        let am = if case2.server_side {
                            match sent {
                                0 => Some(AMsg::Name { who: case2.name, nonce: 5 }),
                                1 => {
                                    our_challenge = 0x5eed_0000 + i as u32;
                                    Some(AMsg::ClientChallenge(dg, our_challenge))
                                }
                                _ => None,
                            }
                        } else {
                            match sent {
                                0 => Some(AMsg::ServerStatus(0)),
                                1 => {
                                    our_challenge = 0x5eed_0000 + i as u32;
                                    Some(AMsg::ServerChallenge(our_challenge))
                                }
                                2 => Some(AMsg::ServerAck(dg)),
                                _ => None,
                            }
                        };
                        if let Some(am) = am {
                            obs2.lock().unwrap().honest_done += 1;
                            send_auth(&am, node_challenge, node_reply.as_ref().map(|r| r.0), &mut auth_sent);
                        }
                    }
                    AStep::Cast { target, good } | AStep::Call { target, good } => {
                        let call = matches!(step, AStep::Call { .. });
                        let to = pid_of_target(target);
                        let (variant, what) = probe_wire(i, call, *good);
                        obs2.lock().unwrap().sent_casts.push((i, to, *good));
                        log(Ev::Note(format!("peer sends {} to pid {to} ({target:?}) good={good}", if call { "call" } else { "cast" })));
                        let m = if call {
                            node::node_message::Msg::Call(node::Call { to, what, tag: i as u64, timeout_ms: None, variant, metadata: None })
                        } else {
                            node::node_message::Msg::Cast(node::Cast { to, what, variant, metadata: None })
                        };
                        peer2.send(&m_node(m));
                    }
                    AStep::Reply { to } => {
                        peer2.send(&m_node(node::node_message::Msg::Reply(node::CallReply { to: pid_of_target(to), tag: 1, what: vec![1, 2, 3] })));
                    }
                    AStep::Spawn { named } => {
                        let name = format!("c17-proxy-{}-{i}", std::process::id());
                        if *named {
                            obs2.lock().unwrap().proxy_names.push(name.clone());
                        }
                        peer2.send(&m_control(control::control_message::Msg::Spawn(control::Spawn { actors: vec![control::Actor { pid: 700 + i as u64, name: if *named { Some(name) } else { None } }] })));
                    }
                    AStep::Terminate => {
                        peer2.send(&m_control(control::control_message::Msg::Terminate(control::Terminate { ids: vec![700, probe_pids[0]] })));
                    }
                    AStep::PgJoin => {
                        let group = format!("c17-evil-{}-{i}", std::process::id());
                        obs2.lock().unwrap().groups.push(group.clone());
                        peer2.send(&m_control(control::control_message::Msg::PgJoin(control::PgJoin { scope: ractor::pg::DEFAULT_SCOPE.to_string(), group, actors: vec![control::Actor { pid: 800 + i as u64, name: None }] })));
                        // also try to pollute the group the real probes live in
                        obs2.lock().unwrap().groups.push("c17".to_string());
                        peer2.send(&m_control(control::control_message::Msg::PgJoin(control::PgJoin { scope: ractor::pg::DEFAULT_SCOPE.to_string(), group: "c17".to_string(), actors: vec![control::Actor { pid: 900 + i as u64, name: None }] })));
                    }
                    AStep::PgLeave => {
                        peer2.send(&m_control(control::control_message::Msg::PgLeave(control::PgLeave { scope: ractor::pg::DEFAULT_SCOPE.to_string(), group: "c17".to_string(), actors: vec![control::Actor { pid: probe_pids[0], name: None }] })));
                    }
                    AStep::Enumerate => {
                        peer2.send(&m_control(control::control_message::Msg::EnumerateNodeSessions(name_msg(1, 0))));
                    }
                    AStep::NodeSessions => {
                        peer2.send(&m_control(control::control_message::Msg::NodeSessions(control::NodeSessions { sessions: vec![] })));
                    }
                    AStep::Ready => {
                        peer2.send(&m_control(control::control_message::Msg::Ready(control::Ready {})));
                    }
                    AStep::Ping => {
                        peer2.send(&m_control(control::control_message::Msg::Ping(control::Ping { timestamp: None })));
                    }
                    AStep::Pong => {
                        peer2.send(&m_control(control::control_message::Msg::Pong(control::Pong { timestamp: None })));
                    }
                    AStep::EmptyNet => {
                        peer2.send(&NetworkMessage { message: None });
                    }
                    AStep::Wait => {
                        let _ = tokio::time::timeout(std::time::Duration::from_millis(20), peer2.readable()).await;
                    }
                    AStep::LocalSpawn => {
                        if spawned_extra < 2 {
                            let idx = 2 + spawned_extra;
                            spawned_extra += 1;
                            let (p, _) = Actor::spawn(None, Probe { idx, got: got2.clone(), pre_join: None }, ()).await.expect("probe");
                            probe_pids.push(p.get_id().pid());
                            probes.push(p);
                        }
                    }
                }
                // --- bookkeeping: is the sequence of authentication messages sent so far legitimate?
                {
                    let mut o = obs2.lock().unwrap();
                    if o.poisoned_at.is_none() && o.legit_at.is_none() && !o.dead {
                        let seq: Vec<&AMsg> = auth_sent.iter().map(|(_, a)| a).collect();
                        // the name the peer actually claimed (a raw Name step carries its own)
                        let self_conn = matches!(seq.first(), Some(AMsg::Name { who, .. }) if NAMES[*who as usize % NAMES.len()] == "a@host");
                        let verdict = classify(case2.server_side, &seq, self_conn);
                        match verdict {
                            SeqClass::Prefix => {}
                            SeqClass::Complete => o.legit_at = Some(i),
                            SeqClass::Poisoned => o.poisoned_at = Some(i),
                            SeqClass::Dead => o.dead = true,
                        }
                    } else if o.legit_at.is_some() && matches!(step, AStep::Auth(_) | AStep::Honest { .. }) {
                        // authenticated sessions ignore further authentication messages
                    }
                }
                // --- sample the public session listing after every step
                if let Some(list) = node.sessions().await {
                    let mut o = obs2.lock().unwrap();
                    if o.legit_at.is_none() && !list.is_empty() {
                        o.listed_while_unauth.push(format!("after step {i} ({step:?}): {:?}", list.iter().map(|s| (s.node_id, s.peer_name.as_ref().map(|n| n.name.clone()))).collect::<Vec<_>>()));
                    }
                }
            }
            absorb(peer2.recv(), &mut frames_seen, &mut node_challenge, &mut node_reply, &mut status_seen, &mut name_seen);
            *shared2.lock().unwrap() = Some((node, probe_pids, sneaky_pid));
            (probes, sneaky, frames_seen)
        };
        let r = run_task(&mut env, 40_000, script).await;
        let (end, mut frames_seen) = match r {
            Ok((_probes, _sneaky, frames)) => (DriveEnd::Done, frames),
            Err(e) => (e, vec![]),
        };
        let quiet = if end == DriveEnd::Done { settle_quiet(&mut env, 30, 40).await } else { false };
        // final observations
        let sh = shared.lock().unwrap().take();
        let mut res = AdvResult {
            obs: std::mem::take(&mut *obs.lock().unwrap()),
            got: got.lock().unwrap().clone(),
            events: vec![],
            final_listed: vec![],
            final_auth_state: None,
            registered_names: vec![],
            remote_group_members: 0,
            announced: vec![],
            probe_pids: vec![],
            sneaky_pid: 0,
            end,
            quiet,
            trace: vec![],
        };
        if let Some((node, probe_pids, sneaky_pid)) = sh {
            frames_seen.extend(peer.recv());
            for f in &frames_seen {
                if let Some(meta::network_message::Message::Control(c)) = &f.message {
                    if let Some(control::control_message::Msg::Spawn(s)) = &c.msg {
                        res.announced.extend(s.actors.iter().map(|a| a.pid));
                    }
                }
            }
            res.events = node.evts();
            let ses_ref = res.events.iter().find(|e| e.kind == EvKind::Opened && e.peer_addr.starts_with("adv")).map(|e| e.actor_ref.clone());
            let server = node.server.clone();
            let fin = run_task(&mut env, 5_000, async move {
                let listed = match ractor::call!(server, ractor_cluster::NodeServerMessage::GetSessions) {
                    Ok(m) => m.into_values().map(|s| format!("{:?}", s.peer_name.map(|n| n.name))).collect(),
                    Err(_) => vec![],
                };
                let st = match ses_ref {
                    Some(s) => ractor::call_t!(s, ractor_cluster::NodeSessionMessage::GetAuthenticationState, 100).ok(),
                    None => None,
                };
                (listed, st)
            })
            .await;
            if let Ok((listed, st)) = fin {
                res.final_listed = listed;
                res.final_auth_state = st;
            }
            for n in &res.obs.proxy_names {
                if ractor::registry::where_is(n.clone()).is_some() {
                    res.registered_names.push(n.clone());
                }
            }
            for g in &res.obs.groups {
                res.remote_group_members += group_view(g).1.len();
            }
            res.got = got.lock().unwrap().clone();
            res.probe_pids = probe_pids;
            res.sneaky_pid = sneaky_pid;
        }
        let tr = take_trace();
        if want_trace {
            res.trace = fmt_trace(&tr);
        }
        res
    })
}

#[derive(Debug, PartialEq)]
enum SeqClass {
    Prefix,
    Complete,
    /// must close the session
    Poisoned,
    /// can never authenticate any more, but nothing forces a close yet (the self-connection
    /// check only runs when the next message arrives)
    Dead,
}

/// Reference: is the sequence of authentication messages the peer sent a (prefix of a)
/// legitimate handshake with the real cookie?
fn classify(server_side: bool, seq: &[&AMsg], self_conn: bool) -> SeqClass {
    if server_side {
        // peer is the client: Name, then ClientChallenge(correct). (`alive` is never answered to a
        // fresh single connection, so ClientStatus is never expected.)
        match seq {
            [] => SeqClass::Prefix,
            [AMsg::Name { .. }] => {
                if self_conn {
                    SeqClass::Dead
                } else {
                    SeqClass::Prefix
                }
            }
            [AMsg::Name { .. }, ..] if self_conn => SeqClass::Dead,
            [AMsg::Name { .. }, AMsg::ClientChallenge(Dg::Correct, _)] if !self_conn => SeqClass::Complete,
            _ => SeqClass::Poisoned,
        }
    } else {
        // peer is the server: ServerStatus(ok|ok_simultaneous|alive), ServerChallenge, ServerAck(correct)
        // 2 = not_ok, 3 = not_allowed close; unknown enum values decode as the default (ok)
        let ok_status = |s: &i32| !matches!(*s, 2 | 3);
        match seq {
            [] => SeqClass::Prefix,
            [AMsg::ServerStatus(s)] if ok_status(s) => SeqClass::Prefix,
            [AMsg::ServerStatus(s), AMsg::ServerChallenge(_)] if ok_status(s) => SeqClass::Prefix,
            [AMsg::ServerStatus(s), AMsg::ServerChallenge(_), AMsg::ServerAck(Dg::Correct)] if ok_status(s) => SeqClass::Complete,
            _ => SeqClass::Poisoned,
        }
    }
}

fn judge_adv(case: &AdvCase, r: &AdvResult) -> Result<(bool, Vec<String>), Violation> {
    let mut labels = vec![];
    let authed_events: Vec<&EvtRec> = r.events.iter().filter(|e| matches!(e.kind, EvKind::Authenticated | EvKind::Ready) && e.peer_addr.starts_with("adv")).collect();
    let legit = r.obs.legit_at;
    // the challenge sent by the peer as a server names the node "b@host"; a node dialing itself is
    // closed by the self-connection check, never authenticated: nothing to relax for it.
    if legit.is_none() {
        if let Some(l) = r.obs.listed_while_unauth.first() {
            return Err(viol("C17/listed-before-auth", format!("GetSessions listed a session that has not completed the handshake: {l}")));
        }
        if !r.final_listed.is_empty() {
            return Err(viol("C17/listed-before-auth", format!("GetSessions lists {:?} although the peer never completed the handshake", r.final_listed)));
        }
        if r.final_auth_state == Some(true) {
            return Err(viol("C17/authenticated-wrongly", format!("the session reports authenticated although the peer never sent a legitimate handshake (steps {:?})", case.steps)));
        }
        if let Some(e) = authed_events.first() {
            return Err(viol("C17/authenticated-wrongly", format!("node event {:?} for a session whose peer never completed the handshake", e.kind)));
        }
        if let Some(g) = r.got.first() {
            return Err(viol("C17/effect-before-auth", format!("a local actor handled a message from an unauthenticated peer: {g:?}")));
        }
        if let Some(n) = r.registered_names.first() {
            return Err(viol("C17/effect-before-auth", format!("a remote-actor proxy named {n} was created for an unauthenticated peer")));
        }
        if r.remote_group_members > 0 {
            return Err(viol("C17/effect-before-auth", "a process group gained a remote member announced by an unauthenticated peer".to_string()));
        }
        if r.obs.poisoned_at.is_some() && r.quiet {
            // the session must be closed
            let closed = r.events.iter().any(|e| e.kind == EvKind::Disconnected && e.peer_addr.starts_with("adv"));
            if !closed {
                return Err(viol("C17/not-closed", format!("the peer sent an out-of-order / wrong authentication message at step {:?} but the session was not closed", r.obs.poisoned_at)));
            }
            labels.push("closed-by-bad-auth".to_string());
        }
    } else {
        let k = legit.unwrap();
        labels.push("authenticated".to_string());
        // deliveries: only from frames sent after the handshake completed, only to advertised probes
        for g in &r.got {
            if g.kind == "sneaky" {
                return Err(viol("C17/non-remotable-reached", format!("an actor that does not support remoting received a wire message: variant {}", g.text)));
            }
            let step = g.sender as usize;
            let Some((_, to, good)) = r.obs.sent_casts.iter().find(|(s, _, _)| *s == step) else {
                return Err(viol("C17/invented-delivery", format!("probe handled {g:?} which the peer never sent")));
            };
            if step <= k {
                return Err(viol("C17/effect-before-auth", format!("probe handled the message sent at step {step}, before the handshake completed at step {k}")));
            }
            if !good {
                return Err(viol("C17/invented-delivery", format!("a truncated payload was handled as a message: {g:?}")));
            }
            let pid = r.probe_pids.get(g.probe).copied().unwrap_or(0);
            if *to != pid {
                return Err(viol("C17/misrouted", format!("message for pid {to} handled by probe {} (pid {pid})", g.probe)));
            }
            if !r.announced.contains(&pid) {
                return Err(viol("C17/unadvertised-reached", format!("probe pid {pid} handled a peer message but was never advertised to that peer")));
            }
        }
        let mut seen = std::collections::HashSet::new();
        for g in &r.got {
            if !seen.insert((g.probe, g.sender, g.kind)) {
                return Err(viol("C17/duplicate-delivery", format!("{g:?} handled twice")));
            }
        }
        if !r.got.is_empty() {
            labels.push("delivered-after-auth".to_string());
        }
        // effects of frames sent before the handshake completed must not exist either: proxies
        // named at steps <= k
        for n in &r.registered_names {
            let step: usize = n.rsplit('-').next().and_then(|s| s.parse().ok()).unwrap_or(usize::MAX);
            if step <= k {
                return Err(viol("C17/effect-before-auth", format!("proxy {n} announced before the handshake completed exists")));
            }
        }
    }
    if r.got.iter().any(|g| g.kind == "sneaky") {
        return Err(viol("C17/non-remotable-reached", "an actor that does not support remoting received a wire message".to_string()));
    }
    let pre_auth_effects = case.steps.iter().take(legit.map(|k| k + 1).unwrap_or(case.steps.len())).filter(|s| !matches!(s, AStep::Auth(_) | AStep::Honest { .. } | AStep::Wait | AStep::LocalSpawn)).count();
    if pre_auth_effects > 0 {
        labels.push("frames-before-auth".to_string());
    }
    if r.obs.honest_done > 0 && legit.is_none() {
        labels.push("handshake-started-not-completed".to_string());
    }
    let nontrivial = pre_auth_effects > 0 && (r.obs.honest_done > 0 || r.obs.poisoned_at.is_some());
    Ok((nontrivial, labels))
}

impl Part for C17Adv {
    type Case = AdvCase;
    const PROP: &'static str = "C17";
    const PART: &'static str = "e3-adversary";
    fn cases(tier: Tier) -> u32 {
        match tier {
            Tier::Quick => 40_000,
            Tier::Thorough => 1_500_000,
        }
    }
    fn strategy(tier: Tier) -> BoxedStrategy<AdvCase> {
        adv_strategy(tier)
    }
    fn directed(_tier: Tier) -> Vec<AdvCase> {
        let full = |server_side: bool, tail: Vec<AStep>| {
            let mut steps = vec![AStep::Honest { knows: true }, AStep::Honest { knows: true }, AStep::Honest { knows: true }];
            steps.extend(tail);
            AdvCase { server_side, name: 0, steps, frag: vec![], schedule: vec![], cookie: 0, near: 0 }
        };
        vec![
            full(true, vec![AStep::Cast { target: Target::Probe(0), good: true }, AStep::Cast { target: Target::Sneaky, good: true }, AStep::Wait, AStep::Wait]),
            full(false, vec![AStep::Call { target: Target::Probe(1), good: true }, AStep::Spawn { named: true }, AStep::PgJoin, AStep::Wait]),
            AdvCase { server_side: true, name: 0, steps: vec![AStep::Honest { knows: true }, AStep::Auth(AMsg::ClientChallenge(Dg::Empty, 1)), AStep::Cast { target: Target::Probe(0), good: true }, AStep::Wait], frag: vec![1], schedule: vec![], cookie: 0, near: 0 },
            AdvCase { server_side: true, name: 1, steps: vec![AStep::Cast { target: Target::Probe(0), good: true }, AStep::Spawn { named: true }, AStep::PgJoin, AStep::Honest { knows: false }, AStep::Honest { knows: false }, AStep::Wait], frag: vec![], schedule: vec![], cookie: 0, near: 0 },
        ]
    }
    fn run(case: &AdvCase, want_trace: bool) -> Outcome {
        let r = run_adv(case, want_trace);
        let trace = r.trace.clone();
        match r.end {
            DriveEnd::Budget => return Outcome { verdict: Verdict::Inconclusive("step budget".into()), nontrivial: false, labels: vec![], trace },
            DriveEnd::Stuck => return Outcome { verdict: Verdict::Inconclusive("peer script stuck".into()), nontrivial: false, labels: vec![], trace },
            DriveEnd::Done => {}
        }
        match judge_adv(case, &r) {
            Err(v) => Outcome { verdict: Verdict::Fail(v), nontrivial: false, labels: vec![], trace },
            Ok((nontrivial, labels)) => Outcome { verdict: Verdict::Pass, nontrivial, labels, trace },
        }
    }
    fn rule() -> &'static str {
        "a real NodeServer (+ session, transport actors, two remotable probes in a process group, one actor that does not support remoting but would decode anything) whose session — server-side or client-side — faces a harness-played peer over an in-memory link with generated read fragmentation and generated task schedule; the peer sends up to 10/16 generated steps: raw authentication messages in any order with any digest kind, steps of the legitimate handshake with the real or a wrong cookie, casts/calls (well-formed or truncated) to probes / the non-remotable actor / the node server / the session itself / unknown pids, call replies, spawn (named proxies), terminate, pg join/leave, session enumeration, ready, ping/pong, empty messages; oracle: unless the peer's authentication messages are exactly the legitimate sequence with the SHA-256 of the real cookie, GetSessions (sampled after every step and at the end) lists nothing, the session never reports authenticated, no authenticated/ready event, no probe handles anything, no proxy name is registered, no group gains a remote member, and a wrong/out-of-order authentication message ends in a disconnect; after a legitimate handshake only frames sent after it have effects, only well-formed messages reach exactly the addressed advertised remotable probe once, never the non-remotable actor; non-trivial = effectful frames sent before authentication in a run where a handshake was started or poisoned"
    }
}
