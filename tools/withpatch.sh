#!/bin/bash
# usage: withpatch.sh <patch.diff> <command...>   — apply a patch to /repo, run the command, always undo
P="$(realpath "$1")"; shift
git -C /repo apply "$P" || { echo "patch does not apply"; exit 3; }
"$@"; rc=$?
git -C /repo checkout -- . ; git -C /repo clean -fdq -e target >/dev/null 2>&1
exit $rc
