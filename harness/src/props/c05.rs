//! C05 — an exiting actor takes its whole subtree with it; links stay consistent (E1 part)

use std::cell::RefCell;
use std::collections::{BTreeSet, HashMap};
use std::rc::Rc;

use proptest::prelude::*;

use crate::core::*;
use crate::gate::DriveEnd;
use crate::gen;
use crate::runner::*;

pub struct C05;

pub fn strategy(tier: Tier) -> BoxedStrategy<Scenario> {
    let max_sched = if tier == Tier::Quick { 160 } else { 320 };
    (2u8..=7)
        .prop_flat_map(move |n| {
            let node = |i: u8| {
                (
                    prop_oneof![4 => Just(Variant::Linked), 2 => Just(Variant::TlLinked), 1 => Just(Variant::Spawn), 1 => Just(Variant::LinkedInstant)],
                    gen::idx(i.max(1)),
                    proptest::collection::vec(prop_oneof![6 => Just(Act::Yield), 2 => (0u16..4).prop_map(Act::Sleep), 1 => Just(Act::DrainSelf), 1 => Just(Act::StopSelf), 1 => Just(Act::Fail), 1 => Just(Act::Hang)], 0..=3),
                    any::<bool>(),
                    proptest::collection::vec(prop_oneof![3 => Just(Act::Yield), 1 => (0u16..3).prop_map(Act::Sleep)], 0..=2),
                )
            };
            let nodes: Vec<_> = (0..n).map(node).collect();
            let structural = prop_oneof![
                4 => (gen::idx(n), gen::idx(n)).prop_map(|(child, sup)| Op::Link { child, sup }),
                2 => (gen::idx(n), gen::idx(n)).prop_map(|(child, sup)| Op::Unlink { child, sup }),
                3 => (gen::idx(n), 0u32..100).prop_map(|(to, seq)| Op::Cast { to, seq }),
                2 => gen::idx(n).prop_map(Op::Drain),
                1 => gen::idx(n).prop_map(Op::DrainChildren),
                1 => gen::idx(n).prop_map(Op::StopChildren),
                3 => Just(Op::Yield),
                1 => (0u16..4).prop_map(Op::Sleep),
            ];
            let exit = prop_oneof![
                3 => gen::idx(n).prop_map(Op::Stop),
                3 => gen::idx(n).prop_map(Op::Kill),
                2 => gen::idx(n).prop_map(Op::Drain),
                2 => gen::idx(n).prop_map(Op::AbortTask),
            ];
            (
                Just(n),
                nodes,
                proptest::collection::vec(proptest::collection::vec(structural, 0..=8), 1..=2),
                proptest::collection::vec((0usize..14, exit), 1..=2),
                gen::schedule(max_sched),
            )
        })
        .prop_map(|(n, nodes, structural, exits, schedule)| {
            let mut specs = vec![];
            let mut c0 = vec![];
            let mut late = vec![];
            for (i, (variant, parent, handle, sup_stops, post_stop)) in nodes.into_iter().enumerate() {
                let i = i as u8;
                let variant = if i == 0 { Variant::Spawn } else { variant };
                specs.push(ActorSpec {
                    variant: Some(variant),
                    parent: if variant.is_linked() { Some(parent) } else { None },
                    handle: vec![handle],
                    post_stop,
                    sup_stops,
                    ..Default::default()
                });
                // the last node is spawned late (a spawn_linked racing with exits)
                if i + 1 == n && n > 2 {
                    late.push(Op::Spawn(i));
                } else {
                    c0.push(Op::Spawn(i));
                    if variant.is_instant() {
                        c0.push(Op::AwaitStart(i));
                    }
                }
            }
            // some backlog so that draining actors stay alive for a while
            for i in 0..n {
                c0.push(Op::Cast { to: i, seq: 1000 });
                c0.push(Op::Cast { to: i, seq: 1001 });
            }
            let mut clients = vec![c0];
            clients.extend(structural);
            for (d, e) in exits {
                let mut v = vec![Op::Yield; d];
                v.push(e);
                clients.push(v);
            }
            let mut l = vec![Op::Yield; 6];
            l.extend(late);
            clients.push(l);
            Scenario { specs, clients, schedule }
        })
        .boxed()
}

#[derive(Default)]
struct Mon {
    violation: Option<Violation>,
    /// last sampled status / children / supervisor per actor
    status: HashMap<usize, u8>,
    children: HashMap<usize, BTreeSet<usize>>,
    /// raw child ids (also children whose index the harness does not know yet)
    raw_children: HashMap<usize, BTreeSet<u64>>,
    /// actor -> (gate step at which it was first seen Stopped, children it had in the previous sample)
    exits: HashMap<usize, (u64, BTreeSet<usize>)>,
    overlap: bool,
}

impl Mon {
    fn sample(&mut self, w: &World, step: u64) {
        if self.violation.is_some() {
            return;
        }
        let cells = w.all_cells();
        let mut sup_of: HashMap<usize, Option<i64>> = HashMap::new();
        let mut children_of: HashMap<usize, BTreeSet<usize>> = HashMap::new();
        let mut status: HashMap<usize, u8> = HashMap::new();
        let mut raw_children: HashMap<usize, BTreeSet<u64>> = HashMap::new();
        for (i, c) in &cells {
            raw_children.insert(*i, c.get_children().iter().map(|ch| ch.get_id().pid()).collect());
            status.insert(*i, c.get_status() as u8);
            sup_of.insert(*i, c.try_get_supervisor().map(|s| w.idx_of(s.get_id())));
            children_of.insert(*i, c.get_children().iter().map(|ch| w.idx_of(ch.get_id())).filter(|x| *x >= 0).map(|x| x as usize).collect());
        }
        // two-sided link consistency
        for (i, sup) in &sup_of {
            if let Some(p) = sup {
                if *p >= 0 {
                    let listed = children_of.get(&(*p as usize)).map_or(false, |s| s.contains(i));
                    if !listed {
                        self.violation = Some(viol("C05/supervisor-without-child-entry", format!("after step {step}: actor {i} names {p} as its supervisor but is not in {p}'s child set")));
                        return;
                    }
                }
            }
        }
        for (p, chs) in &children_of {
            for ch in chs {
                if sup_of.get(ch).copied().flatten() != Some(*p as i64) {
                    self.violation = Some(viol(
                        "C05/child-entry-without-supervisor",
                        format!("after step {step}: actor {ch} is in the child set of {p} but its supervisor is {:?}", sup_of.get(ch)),
                    ));
                    return;
                }
            }
            // each child in at most one set
            for (q, other) in &children_of {
                if q != p {
                    if let Some(dup) = chs.intersection(other).next() {
                        self.violation = Some(viol("C05/two-supervisors", format!("after step {step}: actor {dup} is in the child sets of both {p} and {q}")));
                        return;
                    }
                }
            }
        }
        for (i, st) in &status {
            if *st >= 6 {
                if sup_of.get(i).copied().flatten().is_some() || !children_of.get(i).map_or(true, |s| s.is_empty()) {
                    self.violation = Some(viol(
                        "C05/stopped-but-linked",
                        format!("after step {step}: actor {i} is Stopped but has supervisor {:?} / children {:?}", sup_of.get(i), children_of.get(i)),
                    ));
                    return;
                }
                if !self.exits.contains_key(i) {
                    let prev = self.children.get(i).cloned().unwrap_or_default();
                    self.exits.insert(*i, (step, prev));
                }
            }
            // a draining/stopping/stopped actor never gains children
            let prev_st = self.status.get(i).copied().unwrap_or(0);
            if prev_st >= 4 {
                let before = self.raw_children.get(i).cloned().unwrap_or_default();
                let now = raw_children.get(i).cloned().unwrap_or_default();
                if let Some(newc) = now.difference(&before).next() {
                    self.violation = Some(viol(
                        "C05/gained-child-while-shutting-down",
                        format!("in step {step} actor {i} (status {prev_st} before the step) gained child with pid {newc}"),
                    ));
                    return;
                }
            }
        }
        self.status = status;
        self.children = children_of;
        self.raw_children = raw_children;
    }
}

pub fn check(sc: &Scenario, ex: &Exec, mon: &Mon) -> Result<(bool, Vec<String>), Violation> {
    if let Some(v) = &mon.violation {
        return Err(v.clone());
    }
    let tr = &ex.trace;
    let mut labels = vec![];
    // killed, not merely eventually stopped
    for (p, (step, kids)) in &mon.exits {
        let mut stack: Vec<usize> = kids.iter().copied().collect();
        let mut seen = BTreeSet::new();
        while let Some(c) = stack.pop() {
            if !seen.insert(c) {
                continue;
            }
            // transitively: children the child had when it exited
            if let Some((_, gk)) = mon.exits.get(&c) {
                stack.extend(gk.iter().copied());
            }
            for (pos, e) in tr.iter().enumerate() {
                if e.step > *step {
                    let bad = match &e.ev {
                        Ev::Enter { a, cb, .. } if *a == c => Some(format!("{cb:?} entered")),
                        Ev::Resumed { a, cb } if *a == c => Some(format!("{cb:?} resumed")),
                        _ => None,
                    };
                    if let Some(b) = bad {
                        let st = tr[..pos].iter().rev().find_map(|x| match &x.ev {
                            Ev::Status { a, st } if *a == c => Some(*st),
                            _ => None,
                        });
                        let sig = if st == Some(4) { "C05/draining-child-kept-running" } else { "C05/child-kept-running" };
                        return Err(viol(
                            sig,
                            format!("actor {p} was Stopped after step {step} with {c} linked beneath it, yet {b} in actor {c} at #{pos} (step {}, last sampled status of {c}: {st:?})", e.step),
                        ));
                    }
                }
            }
            if ex.end_main == DriveEnd::Done {
                let stopped_before_sweep = tr[..ex.cut].iter().any(|e| matches!(&e.ev, Ev::Status { a, st: 6 } if *a == c));
                if !stopped_before_sweep {
                    return Err(viol("C05/orphan-survived", format!("actor {p} exited with {c} linked beneath it, but {c} never reached Stopped")));
                }
            }
        }
        if !kids.is_empty() {
            labels.push("exit-with-children".to_string());
        }
    }
    let _ = sc;
    Ok((mon.overlap || mon.exits.values().any(|(_, k)| !k.is_empty()), labels))
}

impl Part for C05 {
    type Case = Scenario;
    const PROP: &'static str = "C05";
    const PART: &'static str = "e1";
    fn cases(tier: Tier) -> u32 {
        match tier {
            Tier::Quick => 80_000,
            Tier::Thorough => 2_000_000,
        }
    }
    fn strategy(tier: Tier) -> BoxedStrategy<Scenario> {
        strategy(tier)
    }
    fn run(case: &Scenario, want_trace: bool) -> Outcome {
        let mon = Rc::new(RefCell::new(Mon::default()));
        let sampler = Rc::new(RefCell::new(StatusSampler::default()));
        let (m2, s2) = (mon.clone(), sampler.clone());
        let ex = exec_scenario(
            case,
            ExecOpts::default(),
            move |w, step, _| {
                s2.borrow_mut().sample(w);
                m2.borrow_mut().sample(w, step);
            },
            |_| vec![],
        );
        let trace = if want_trace { fmt_trace(&ex.trace) } else { vec![] };
        if let Some(p) = &ex.client_panic {
            return Outcome { verdict: Verdict::Fail(viol("C05/client-panic", p.clone())), nontrivial: false, labels: vec![], trace };
        }
        let m = mon.borrow();
        match check(case, &ex, &m) {
            Err(v) => Outcome { verdict: Verdict::Fail(v), nontrivial: false, labels: vec![], trace },
            Ok((nontrivial, labels)) => {
                if ex.end_main == DriveEnd::Budget || ex.end_sweep == DriveEnd::Budget {
                    return Outcome { verdict: Verdict::Inconclusive("step budget".into()), nontrivial: false, labels, trace };
                }
                if ex.end_main == DriveEnd::Stuck || ex.end_sweep == DriveEnd::Stuck {
                    return Outcome { verdict: Verdict::Fail(viol("C05/stuck", format!("main={:?} sweep={:?}", ex.end_main, ex.end_sweep))), nontrivial, labels, trace };
                }
                Outcome { verdict: Verdict::Pass, nontrivial, labels, trace }
            }
        }
    }
    fn rule() -> &'static str {
        "generated supervision trees (2-7 actors, Send/thread-local/instant, some unlinked) with backlogs, handlers that await/drain/stop/fail/hang, 1-2 generated exits (stop/kill/drain/task abort) and concurrent clients issuing link/unlink/relink/drain/stop_children/late spawn_linked at generated steps; oracle = two-sided tree invariant and no-gain-while-shutting-down checked after every scheduler step + every actor linked beneath an exited actor makes no further progress and is Stopped at quiescence; non-trivial = an actor exited while it had children"
    }
}
