//! C16 — output ports fan out in order without duplicates (E1; default port and output-port-v2)

use std::collections::HashMap;

use proptest::prelude::*;

use crate::core::*;
use crate::gate::DriveEnd;
use crate::gen;
use crate::runner::*;

pub struct C16;

#[cfg(feature = "v2")]
const IS_V2: bool = true;
#[cfg(not(feature = "v2"))]
const IS_V2: bool = false;

pub fn strategy(tier: Tier) -> BoxedStrategy<Scenario> {
    let max_ops = if tier == Tier::Quick { 40 } else { 90 };
    (1u8..=4)
        .prop_flat_map(move |n| {
            let sub = proptest::collection::vec(prop_oneof![3 => Just(vec![]), 2 => Just(vec![Act::Yield]), 2 => (1u16..4).prop_map(|ms| vec![Act::Sleep(ms)])], n as usize);
            let op = prop_oneof![
                14 => Just(Op::PortPub(0)),
                3 => (gen::idx(n), 0u8..5).prop_map(|(who, conv)| Op::PortSub { who, conv }),
                1 => gen::idx(n).prop_map(Op::Stop),
                1 => gen::idx(n).prop_map(Op::Kill),
                3 => Just(Op::Yield),
                1 => (0u16..3).prop_map(Op::Sleep),
            ];
            (Just(n), sub, proptest::collection::vec(op, 1..=max_ops), gen::schedule(200))
        })
        .prop_map(|(n, subs, mut ops, schedule)| {
            let specs: Vec<ActorSpec> = subs.into_iter().map(|h| ActorSpec { variant: Some(Variant::Spawn), handle: vec![h], ..Default::default() }).collect();
            // number the publications
            let mut k = 0;
            for op in ops.iter_mut() {
                if let Op::PortPub(x) = op {
                    *x = k;
                    k += 1;
                }
            }
            let mut c0: Vec<Op> = (0..n).map(Op::Spawn).collect();
            // at least one early subscription
            c0.push(Op::PortSub { who: 0, conv: 4 });
            c0.extend(ops);
            Scenario { specs, clients: vec![c0], schedule }
        })
        .boxed()
}

pub fn check(sc: &Scenario, ex: &Exec) -> Result<(bool, Vec<String>), Violation> {
    let tr = &ex.trace;
    let ops = &sc.clients[0];
    let mut labels = vec![];
    // publications (number, trace position) and subscriptions (sid -> (who, conv, position))
    let mut pubs: Vec<(u32, usize)> = vec![];
    let mut subs: HashMap<u16, (usize, u8, usize)> = HashMap::new();
    let mut exits: HashMap<usize, usize> = HashMap::new(); // actor -> position of the first stop/kill issued
    for (pos, e) in tr.iter().enumerate() {
        if let Ev::OpEnd { c: 0, i, res } = &e.ev {
            match (&ops[*i], res) {
                (Op::PortPub(n), _) => pubs.push((*n, pos)),
                (Op::PortSub { who, conv }, Res::Found(sid)) => {
                    subs.insert(*sid as u16, (*who as usize, *conv, pos));
                }
                (Op::Stop(a) | Op::Kill(a), r) if *r != Res::Skipped => {
                    exits.entry(*a as usize).or_insert(pos);
                }
                _ => {}
            }
        }
    }
    let keep = |conv: u8, n: u32| !(conv < 3 && (n + conv as u32) % 3 == 0);
    let mut nontrivial_mid = false;
    let mut dead_or_lag = false;
    for (sid, (who, conv, at)) in &subs {
        let expected: Vec<u32> = pubs.iter().filter(|(n, p)| p > at && keep(*conv, *n)).map(|(n, _)| *n).collect();
        let raw_after: Vec<(u32, usize)> = pubs.iter().filter(|(_, p)| p > at).copied().collect();
        let received: Vec<u32> = tr
            .iter()
            .filter_map(|e| match &e.ev {
                Ev::Enter { a, cb: Cb::Handle, tag: Tag::Num { sender, seq } } if a == who && *sender == PORT_SENDER_BASE + sid => Some(*seq),
                _ => None,
            })
            .collect();
        // never twice, in publication order, only what was published after the subscription and not filtered
        for w in received.windows(2) {
            if w[1] <= w[0] {
                return Err(viol(if w[1] == w[0] { "C16/duplicate" } else { "C16/out-of-order" }, format!("subscription {sid} (actor {who}) received {received:?}")));
            }
        }
        for r in &received {
            if !expected.contains(r) {
                let why = if pubs.iter().any(|(n, p)| n == r && p <= at) { "published before the subscription" } else if !keep(*conv, *r) { "mapped to None by its converter" } else { "never published" };
                return Err(viol("C16/unexpected-message", format!("subscription {sid} (actor {who}) received {r}, which was {why}; received {received:?}")));
            }
        }
        if pubs.iter().any(|(_, p)| p < at) && !expected.is_empty() {
            nontrivial_mid = true;
        }
        let exited = exits.get(who).copied();
        if exited.is_some() {
            dead_or_lag = true;
        }
        if received.len() < expected.len() {
            dead_or_lag = true;
        }
        if ex.end_main == DriveEnd::Done {
            if IS_V2 {
                // nothing may be skipped while the subscriber lives
                let must: Vec<u32> = match exited {
                    None => expected.clone(),
                    Some(x) => pubs.iter().filter(|(n, p)| p > at && *p < x && keep(*conv, *n)).map(|(n, _)| *n).collect::<Vec<_>>(),
                };
                // messages published before the exit was even requested: all of them unless the subscriber was killed
                // (a kill may drop what is already in its mailbox); for stop/kill we only demand the prefix property
                if exited.is_none() && received != must {
                    return Err(viol("C16/v2-skipped", format!("subscription {sid} (actor {who}, alive): expected exactly {must:?}, received {received:?}")));
                }
                if exited.is_some() {
                    let n = received.len().min(expected.len());
                    if received[..n] != expected[..n] {
                        return Err(viol("C16/v2-skipped", format!("subscription {sid} (actor {who}): received {received:?} is not a prefix of {expected:?}")));
                    }
                }
            } else if exited.is_none() {
                // default port: a lagging receiver resumes at the oldest retained slot; the last 10 raw
                // publications are always retained
                let tail: Vec<u32> = raw_after.iter().rev().take(10).map(|(n, _)| *n).filter(|n| keep(*conv, *n)).collect();
                for t in tail {
                    if !received.contains(&t) {
                        return Err(viol("C16/v1-lost-recent", format!("subscription {sid} (actor {who}, alive) never received {t}, one of the last 10 publications; received {received:?}")));
                    }
                }
            }
        }
    }
    if subs.len() >= 2 {
        labels.push("multi-subscriber".to_string());
    }
    Ok((nontrivial_mid && dead_or_lag, labels))
}

impl Part for C16 {
    type Case = Scenario;
    const PROP: &'static str = "C16";
    #[cfg(feature = "v2")]
    const PART: &'static str = "e1-v2";
    #[cfg(not(feature = "v2"))]
    const PART: &'static str = "e1-v1";
    #[cfg(feature = "v2")]
    const VARIANT: &'static str = "v2";
    fn cases(tier: Tier) -> u32 {
        match tier {
            Tier::Quick => 60_000,
            Tier::Thorough => 1_500_000,
        }
    }
    fn strategy(tier: Tier) -> BoxedStrategy<Scenario> {
        strategy(tier)
    }
    fn run(case: &Scenario, want_trace: bool) -> Outcome {
        let ex = exec_scenario(case, ExecOpts::default(), |_, _, _| {}, |_| vec![]);
        let trace = if want_trace { fmt_trace(&ex.trace) } else { vec![] };
        if let Some(p) = &ex.client_panic {
            return Outcome { verdict: Verdict::Fail(viol("C16/client-panic", p.clone())), nontrivial: false, labels: vec![], trace };
        }
        match check(case, &ex) {
            Err(v) => Outcome { verdict: Verdict::Fail(v), nontrivial: false, labels: vec![], trace },
            Ok((nontrivial, labels)) => {
                if ex.end_main == DriveEnd::Budget || ex.end_sweep == DriveEnd::Budget {
                    return Outcome { verdict: Verdict::Inconclusive("step budget".into()), nontrivial: false, labels, trace };
                }
                if ex.end_main == DriveEnd::Stuck {
                    return Outcome { verdict: Verdict::Fail(viol("C16/publisher-blocked", "the publishing client never finished: send/subscribe blocked")), nontrivial, labels, trace };
                }
                Outcome { verdict: Verdict::Pass, nontrivial, labels, trace }
            }
        }
    }
    fn rule() -> &'static str {
        if IS_V2 {
            "output-port-v2 build: generated publisher history (up to 40/90 ops: numbered publications, subscriptions of 1-4 scripted subscriber actors at arbitrary stream positions incl. re-subscription, converters that tag the subscription and map a generated residue class to None, stop/kill of subscribers, yields) with slow subscribers and schedule bytes; oracle per subscription: received == filter_map(published after subscribe) exactly while the subscriber lives (prefix after a stop/kill), strictly increasing, nothing from before the subscription; non-trivial = a mid-stream subscription plus a dead or lagging subscriber"
        } else {
            "default (broadcast) port: same generator; oracle per subscription: received is a strictly increasing subsequence of filter_map(published after subscribe) without duplicates, and every mapped message among the last 10 raw publications is present for a live subscriber; non-trivial = a mid-stream subscription plus a dead or lagging subscriber"
        }
    }
}
