//! C05 — an exiting actor takes its whole subtree with it; links stay consistent (E1 part)

use std::cell::RefCell;
use std::collections::{BTreeSet, HashMap};
use std::rc::Rc;

use proptest::prelude::*;

use crate::core::*;
use crate::gate::DriveEnd;
use crate::gen;
use crate::runner::*;

pub struct C05;

pub fn strategy(tier: Tier) -> BoxedStrategy<Scenario> {
    let max_sched = if tier == Tier::Quick { 160 } else { 320 };
    (2u8..=7)
        .prop_flat_map(move |n| {
            let node = |i: u8| {
                (
                    prop_oneof![4 => Just(Variant::Linked), 2 => Just(Variant::TlLinked), 1 => Just(Variant::Spawn), 1 => Just(Variant::LinkedInstant)],
                    gen::idx(i.max(1)),
                    proptest::collection::vec(prop_oneof![6 => Just(Act::Yield), 2 => (0u16..4).prop_map(Act::Sleep), 1 => Just(Act::DrainSelf), 1 => Just(Act::StopSelf), 1 => Just(Act::Fail), 1 => Just(Act::Hang)], 0..=3),
                    any::<bool>(),
                    proptest::collection::vec(prop_oneof![3 => Just(Act::Yield), 1 => (0u16..3).prop_map(Act::Sleep)], 0..=2),
                )
            };
            let nodes: Vec<_> = (0..n).map(node).collect();
            let structural = prop_oneof![
                4 => (gen::idx(n), gen::idx(n)).prop_map(|(child, sup)| Op::Link { child, sup }),
                2 => (gen::idx(n), gen::idx(n)).prop_map(|(child, sup)| Op::Unlink { child, sup }),
                3 => (gen::idx(n), 0u32..100).prop_map(|(to, seq)| Op::Cast { to, seq }),
                2 => gen::idx(n).prop_map(Op::Drain),
                1 => gen::idx(n).prop_map(Op::DrainChildren),
                1 => gen::idx(n).prop_map(Op::StopChildren),
                3 => Just(Op::Yield),
                1 => (0u16..4).prop_map(Op::Sleep),
            ];
            let exit = prop_oneof![
                3 => gen::idx(n).prop_map(Op::Stop),
                3 => gen::idx(n).prop_map(Op::Kill),
                2 => gen::idx(n).prop_map(Op::Drain),
                2 => gen::idx(n).prop_map(Op::AbortTask),
            ];
            (
                Just(n),
                nodes,
                proptest::collection::vec(proptest::collection::vec(structural, 0..=8), 1..=2),
                proptest::collection::vec((0usize..14, exit), 1..=2),
                gen::schedule(max_sched),
            )
        })
        .prop_map(|(n, nodes, structural, exits, schedule)| {
            let mut specs = vec![];
            let mut c0 = vec![];
            let mut late = vec![];
            for (i, (variant, parent, handle, sup_stops, post_stop)) in nodes.into_iter().enumerate() {
                let i = i as u8;
                let variant = if i == 0 { Variant::Spawn } else { variant };
                specs.push(ActorSpec {
                    variant: Some(variant),
                    parent: if variant.is_linked() { Some(parent) } else { None },
                    handle: vec![handle],
                    post_stop,
                    sup_stops,
                    ..Default::default()
                });
                // the last node is spawned late (a spawn_linked racing with exits)
                if i + 1 == n && n > 2 {
                    late.push(Op::Spawn(i));
                } else {
                    c0.push(Op::Spawn(i));
                    if variant.is_instant() {
                        c0.push(Op::AwaitStart(i));
                    }
                }
            }
            // some backlog so that draining actors stay alive for a while
            for i in 0..n {
                c0.push(Op::Cast { to: i, seq: 1000 });
                c0.push(Op::Cast { to: i, seq: 1001 });
            }
            let mut clients = vec![c0];
            clients.extend(structural);
            for (d, e) in exits {
                let mut v = vec![Op::Yield; d];
                v.push(e);
                clients.push(v);
            }
            let mut l = vec![Op::Yield; 6];
            l.extend(late);
            clients.push(l);
            Scenario { specs, clients, schedule }
        })
        .boxed()
}

#[derive(Default)]
struct Mon {
    violation: Option<Violation>,
    /// last sampled status / children / supervisor per actor
    status: HashMap<usize, u8>,
    children: HashMap<usize, BTreeSet<usize>>,
    /// raw child ids (also children whose index the harness does not know yet)
    raw_children: HashMap<usize, BTreeSet<u64>>,
    /// actor -> (gate step at which it was first seen Stopped, children it had in the previous sample)
    exits: HashMap<usize, (u64, BTreeSet<usize>)>,
    overlap: bool,
}

impl Mon {
    fn sample(&mut self, w: &World, step: u64) {
        if self.violation.is_some() {
            return;
        }
        let cells = w.all_cells();
        let mut sup_of: HashMap<usize, Option<i64>> = HashMap::new();
        let mut children_of: HashMap<usize, BTreeSet<usize>> = HashMap::new();
        let mut status: HashMap<usize, u8> = HashMap::new();
        let mut raw_children: HashMap<usize, BTreeSet<u64>> = HashMap::new();
        for (i, c) in &cells {
            raw_children.insert(*i, c.get_children().iter().map(|ch| ch.get_id().pid()).collect());
            status.insert(*i, c.get_status() as u8);
            sup_of.insert(*i, c.try_get_supervisor().map(|s| w.idx_of(s.get_id())));
            children_of.insert(*i, c.get_children().iter().map(|ch| w.idx_of(ch.get_id())).filter(|x| *x >= 0).map(|x| x as usize).collect());
        }
        // two-sided link consistency
        for (i, sup) in &sup_of {
            if let Some(p) = sup {
                if *p >= 0 {
                    let listed = children_of.get(&(*p as usize)).map_or(false, |s| s.contains(i));
                    if !listed {
                        self.violation = Some(viol("C05/supervisor-without-child-entry", format!("after step {step}: actor {i} names {p} as its supervisor but is not in {p}'s child set")));
                        return;
                    }
                }
            }
        }
        for (p, chs) in &children_of {
            for ch in chs {
                if sup_of.get(ch).copied().flatten() != Some(*p as i64) {
                    self.violation = Some(viol(
                        "C05/child-entry-without-supervisor",
                        format!("after step {step}: actor {ch} is in the child set of {p} but its supervisor is {:?}", sup_of.get(ch)),
                    ));
                    return;
                }
            }
            // each child in at most one set
            for (q, other) in &children_of {
                if q != p {
                    if let Some(dup) = chs.intersection(other).next() {
                        self.violation = Some(viol("C05/two-supervisors", format!("after step {step}: actor {dup} is in the child sets of both {p} and {q}")));
                        return;
                    }
                }
            }
        }
        for (i, st) in &status {
            if *st >= 6 {
                if sup_of.get(i).copied().flatten().is_some() || !children_of.get(i).map_or(true, |s| s.is_empty()) {
                    self.violation = Some(viol(
                        "C05/stopped-but-linked",
                        format!("after step {step}: actor {i} is Stopped but has supervisor {:?} / children {:?}", sup_of.get(i), children_of.get(i)),
                    ));
                    return;
                }
                if !self.exits.contains_key(i) {
                    let prev = self.children.get(i).cloned().unwrap_or_default();
                    self.exits.insert(*i, (step, prev));
                }
            }
            // a draining/stopping/stopped actor never gains children
            let prev_st = self.status.get(i).copied().unwrap_or(0);
            if prev_st >= 4 {
                let before = self.raw_children.get(i).cloned().unwrap_or_default();
                let now = raw_children.get(i).cloned().unwrap_or_default();
                if let Some(newc) = now.difference(&before).next() {
                    self.violation = Some(viol(
                        "C05/gained-child-while-shutting-down",
                        format!("in step {step} actor {i} (status {prev_st} before the step) gained child with pid {newc}"),
                    ));
                    return;
                }
            }
        }
        self.status = status;
        self.children = children_of;
        self.raw_children = raw_children;
    }
}

pub fn check(sc: &Scenario, ex: &Exec, mon: &Mon) -> Result<(bool, Vec<String>), Violation> {
    if let Some(v) = &mon.violation {
        return Err(v.clone());
    }
    let tr = &ex.trace;
    let mut labels = vec![];
    // killed, not merely eventually stopped
    for (p, (step, kids)) in &mon.exits {
        let mut stack: Vec<usize> = kids.iter().copied().collect();
        let mut seen = BTreeSet::new();
        while let Some(c) = stack.pop() {
            if !seen.insert(c) {
                continue;
            }
            // transitively: children the child had when it exited
            if let Some((_, gk)) = mon.exits.get(&c) {
                stack.extend(gk.iter().copied());
            }
            for (pos, e) in tr.iter().enumerate() {
                if e.step > *step {
                    let bad = match &e.ev {
                        Ev::Enter { a, cb, .. } if *a == c => Some(format!("{cb:?} entered")),
                        Ev::Resumed { a, cb } if *a == c => Some(format!("{cb:?} resumed")),
                        _ => None,
                    };
                    if let Some(b) = bad {
                        let st = tr[..pos].iter().rev().find_map(|x| match &x.ev {
                            Ev::Status { a, st } if *a == c => Some(*st),
                            _ => None,
                        });
                        let sig = if st == Some(4) { "C05/draining-child-kept-running" } else { "C05/child-kept-running" };
                        return Err(viol(
                            sig,
                            format!("actor {p} was Stopped after step {step} with {c} linked beneath it, yet {b} in actor {c} at #{pos} (step {}, last sampled status of {c}: {st:?})", e.step),
                        ));
                    }
                }
            }
            if ex.end_main == DriveEnd::Done {
                let stopped_before_sweep = tr[..ex.cut].iter().any(|e| matches!(&e.ev, Ev::Status { a, st: 6 } if *a == c));
                if !stopped_before_sweep {
                    return Err(viol("C05/orphan-survived", format!("actor {p} exited with {c} linked beneath it, but {c} never reached Stopped")));
                }
            }
        }
        if !kids.is_empty() {
            labels.push("exit-with-children".to_string());
        }
    }
    let _ = sc;
    Ok((mon.overlap || mon.exits.values().any(|(_, k)| !k.is_empty()), labels))
}

impl Part for C05 {
    type Case = Scenario;
    const PROP: &'static str = "C05";
    const PART: &'static str = "e1";
    fn cases(tier: Tier) -> u32 {
        match tier {
            Tier::Quick => 80_000,
            Tier::Thorough => 2_000_000,
        }
    }
    fn strategy(tier: Tier) -> BoxedStrategy<Scenario> {
        strategy(tier)
    }
    fn run(case: &Scenario, want_trace: bool) -> Outcome {
        let mon = Rc::new(RefCell::new(Mon::default()));
        let sampler = Rc::new(RefCell::new(StatusSampler::default()));
        let (m2, s2) = (mon.clone(), sampler.clone());
        let ex = exec_scenario(
            case,
            ExecOpts::default(),
            move |w, step, _| {
                s2.borrow_mut().sample(w);
                m2.borrow_mut().sample(w, step);
            },
            |_| vec![],
        );
        let trace = if want_trace { fmt_trace(&ex.trace) } else { vec![] };
        if let Some(p) = &ex.client_panic {
            return Outcome { verdict: Verdict::Fail(viol("C05/client-panic", p.clone())), nontrivial: false, labels: vec![], trace };
        }
        let m = mon.borrow();
        match check(case, &ex, &m) {
            Err(v) => Outcome { verdict: Verdict::Fail(v), nontrivial: false, labels: vec![], trace },
            Ok((nontrivial, labels)) => {
                if ex.end_main == DriveEnd::Budget || ex.end_sweep == DriveEnd::Budget {
                    return Outcome { verdict: Verdict::Inconclusive("step budget".into()), nontrivial: false, labels, trace };
                }
                if ex.end_main == DriveEnd::Stuck || ex.end_sweep == DriveEnd::Stuck {
                    return Outcome { verdict: Verdict::Fail(viol("C05/stuck", format!("main={:?} sweep={:?}", ex.end_main, ex.end_sweep))), nontrivial, labels, trace };
                }
                Outcome { verdict: Verdict::Pass, nontrivial, labels, trace }
            }
        }
    }
    fn rule() -> &'static str {
        "generated supervision trees (2-7 actors, Send/thread-local/instant, some unlinked) with backlogs, handlers that await/drain/stop/fail/hang, 1-2 generated exits (stop/kill/drain/task abort) and concurrent clients issuing link/unlink/relink/drain/stop_children/late spawn_linked at generated steps; oracle = two-sided tree invariant and no-gain-while-shutting-down checked after every scheduler step + every actor linked beneath an exited actor makes no further progress and is Stopped at quiescence; non-trivial = an actor exited while it had children"
    }
}

// =====================================================================================
// E2 / free-running parts: the supervision tree under real concurrency
//
// Detached cells (the real `ActorCell::new`), no actor tasks: controlled OS threads call the
// public link / unlink and the real exit clean-up (`ActorLifecycleGuard::finish`, which runs
// `terminate()` and publishes Stopped), preemptible at every `verif_point!` in supervision.rs,
// `terminate`, `set_status` and the guard's clean-up.

pub mod e2part {
    use std::collections::BTreeSet;
    use std::sync::{Arc, Mutex};

    use proptest::prelude::*;
    use ractor::verif::{DetachedPorts, LifecycleHandle};
    use ractor::{ActorCell, ActorStatus, SupervisionEvent};
    use serde::{Deserialize, Serialize};

    use crate::core::{viol, Violation};
    use crate::e2::{run_threads, run_threads_free, E2Run, Sched, ThreadCtx};
    use crate::gen;
    use crate::props::c07::Dummy;
    use crate::runner::*;

    #[derive(Clone, Debug, PartialEq, Eq, Serialize, Deserialize)]
    pub enum TOp {
        Link { child: u8, sup: u8 },
        Unlink { child: u8, sup: u8 },
        /// the real exit clean-up of the actor
        Exit(u8),
    }

    #[derive(Clone, Debug, Serialize, Deserialize)]
    pub struct Case {
        pub n: u8,
        /// links made sequentially before the threads start
        pub init: Vec<(u8, u8)>,
        pub programs: Vec<Vec<TOp>>,
        pub schedule: Vec<u8>,
    }

    pub struct World {
        pub cells: Vec<ActorCell>,
        pub ports: Vec<Mutex<DetachedPorts>>,
    }

    impl World {
        fn new(n: usize) -> World {
            let mut cells = vec![];
            let mut ports = vec![];
            for _ in 0..n {
                let (c, p) = ractor::verif::detached_cell::<Dummy>(None).expect("cell");
                ractor::verif::set_status(&c, ActorStatus::Running);
                cells.push(c);
                ports.push(Mutex::new(p));
            }
            World { cells, ports }
        }
        fn idx(&self, c: &ActorCell) -> Option<usize> {
            self.cells.iter().position(|x| x.get_id() == c.get_id())
        }
        fn exec(&self, op: &TOp) {
            match op {
                TOp::Link { child, sup } => {
                    if child != sup {
                        self.cells[*child as usize].link(self.cells[*sup as usize].clone());
                    }
                }
                TOp::Unlink { child, sup } => {
                    if child != sup {
                        self.cells[*child as usize].unlink(self.cells[*sup as usize].clone());
                    }
                }
                TOp::Exit(a) => {
                    let cell = self.cells[*a as usize].clone();
                    if cell.get_status() >= ActorStatus::Stopping {
                        return;
                    }
                    let mut h = LifecycleHandle::new(cell.clone());
                    h.mark_running();
                    h.finish(SupervisionEvent::ActorTerminated(cell, None, None));
                }
            }
        }
        fn cleanup(&self) {
            for c in &self.cells {
                ractor::verif::set_status(c, ActorStatus::Stopped);
            }
        }
    }

    fn exec(w: &World, _ctx: &ThreadCtx, _tid: usize, op: &TOp) {
        w.exec(op)
    }

    pub fn strategy() -> BoxedStrategy<Case> {
        (3u8..=5)
            .prop_flat_map(|n| {
                let op = prop_oneof![
                    6 => (gen::idx(n), gen::idx(n)).prop_map(|(child, sup)| TOp::Link { child, sup }),
                    2 => (gen::idx(n), gen::idx(n)).prop_map(|(child, sup)| TOp::Unlink { child, sup }),
                    4 => gen::idx(n).prop_map(TOp::Exit),
                ];
                (Just(n), proptest::collection::vec((gen::idx(n), gen::idx(n)), 0..=3), proptest::collection::vec(proptest::collection::vec(op, 1..=3), 2..=4), gen::schedule(64))
            })
            .prop_map(|(n, init, mut programs, schedule)| {
                let mut total = 0;
                for p in programs.iter_mut() {
                    let room = 8usize.saturating_sub(total);
                    p.truncate(room.max(1).min(p.len()));
                    total += p.len();
                }
                Case { n, init, programs, schedule }
            })
            .boxed()
    }

    fn judge(case: &Case, w: &World, run: &E2Run<()>) -> Result<(bool, Vec<String>), Violation> {
        let n = case.n as usize;
        let sup_of: Vec<Option<usize>> = w.cells.iter().map(|c| c.try_get_supervisor().and_then(|s| w.idx(&s))).collect();
        let children_of: Vec<BTreeSet<usize>> = w.cells.iter().map(|c| c.get_children().iter().filter_map(|x| w.idx(x)).collect()).collect();
        let exited: BTreeSet<usize> = (0..n).filter(|a| w.cells[*a].get_status() == ActorStatus::Stopped).collect();
        let hist = || run.recs.iter().map(|r| format!("t{}:{:?}[{}..{}]", r.tid, case.programs[r.tid][r.idx], r.start, r.end)).collect::<Vec<_>>();
        // two-sided consistency
        for b in 0..n {
            if let Some(a) = sup_of[b] {
                if !children_of[a].contains(&b) {
                    return Err(viol("C05/one-sided-link", format!("actor {b} names {a} as its supervisor but is not among {a}'s children {:?}; init {:?}; {:?}", children_of[a], case.init, hist())));
                }
            }
            for ch in &children_of[b] {
                if sup_of[*ch] != Some(b) {
                    return Err(viol("C05/one-sided-link", format!("actor {b} lists {ch} as a child but {ch}'s supervisor is {:?}; init {:?}; {:?}", sup_of[*ch], case.init, hist())));
                }
            }
        }
        // a stopped actor has neither supervisor nor children
        for a in &exited {
            if sup_of[*a].is_some() || !children_of[*a].is_empty() {
                return Err(viol("C05/stopped-actor-linked", format!("actor {a} exited but still has supervisor {:?} / children {:?}; init {:?}; {:?}", sup_of[*a], children_of[*a], case.init, hist())));
            }
        }
        // killed-with-the-parent: a child whose only link was in place before its supervisor's exit began
        // and that no other call names must have received the kill signal
        let mut killed = vec![false; n];
        for (i, p) in w.ports.iter().enumerate() {
            let mut g = p.lock().unwrap();
            while g.try_recv_signal().is_some() {
                killed[i] = true;
            }
        }
        let mut nontrivial = false;
        for r in &run.recs {
            if let TOp::Exit(a) = &case.programs[r.tid][r.idx] {
                let a = *a as usize;
                // children by the initial links that nobody touches during the run
                for (ch, sp) in &case.init {
                    let (ch, sp) = (*ch as usize, *sp as usize);
                    if sp != a || ch == sp {
                        continue;
                    }
                    // the last initial link of `ch` decides its supervisor
                    let last = case.init.iter().rev().find(|(c, s)| *c as usize == ch && c != s).map(|x| x.1 as usize);
                    if last != Some(a) {
                        continue;
                    }
                    let touched = case.programs.iter().flatten().any(|op| match op {
                        TOp::Link { child, sup } | TOp::Unlink { child, sup } => *child as usize == ch || (*sup as usize == ch && false),
                        TOp::Exit(x) => *x as usize == ch,
                    });
                    // the supervisor itself must really have run its clean-up (not already stopping when called)
                    if !touched && exited.contains(&a) && !killed[ch] && w.cells[ch].get_status() != ActorStatus::Stopped {
                        return Err(viol("C05/child-survives-exit", format!("actor {ch} was linked under {a} before the run and nobody relinked it; {a} exited, {ch} was not killed; init {:?}; {:?}", case.init, hist())));
                    }
                }
                // overlap with a link/unlink naming the same actor
                for o in &run.recs {
                    if o.tid != r.tid && o.start < r.end && r.start < o.end {
                        if let TOp::Link { child, sup } | TOp::Unlink { child, sup } = &case.programs[o.tid][o.idx] {
                            if *child as usize == a || *sup as usize == a {
                                nontrivial = true;
                            }
                        }
                    }
                }
            }
        }
        Ok((nontrivial && run.preemptions > 0, vec![]))
    }

    pub fn run_case(case: &Case, want_trace: bool, sched: Option<Sched>, spin: &[u32]) -> (Outcome, Vec<(usize, usize)>) {
        let w = Arc::new(World::new(case.n as usize));
        for (ch, sp) in &case.init {
            if ch != sp {
                w.cells[*ch as usize].link(w.cells[*sp as usize].clone());
            }
        }
        let run = match sched {
            Some(s) => run_threads(w.clone(), case.programs.clone(), s, exec),
            None => run_threads_free(w.clone(), case.programs.clone(), spin.to_vec(), exec),
        };
        let r = if run.deadlock { Err(viol("C05/deadlock", "all remaining threads are blocked (deadlock verdict)")) } else { judge(case, &w, &run) };
        w.cleanup();
        let trace = if want_trace { run.recs.iter().map(|r| format!("thread {} op {} {:?} [{}..{}]", r.tid, r.idx, case.programs[r.tid][r.idx], r.start, r.end)).collect() } else { vec![] };
        let log = run.choice_log.clone();
        let o = match r {
            Err(v) => Outcome { verdict: Verdict::Fail(v), nontrivial: false, labels: vec![], trace },
            Ok((nt, labels)) => Outcome { verdict: Verdict::Pass, nontrivial: nt, labels, trace },
        };
        (o, log)
    }

    pub struct C05E2;
    impl Part for C05E2 {
        type Case = Case;
        const PROP: &'static str = "C05";
        const PART: &'static str = "e2";
        fn cases(tier: Tier) -> u32 {
            match tier {
                Tier::Quick => 30_000,
                Tier::Thorough => 1_000_000,
            }
        }
        fn strategy(_tier: Tier) -> BoxedStrategy<Case> {
            strategy()
        }
        fn run(case: &Case, want_trace: bool) -> Outcome {
            run_case(case, want_trace, Some(Sched::Bytes(case.schedule.clone())), &[]).0
        }
        fn rule() -> &'static str {
            "2-4 controlled OS threads issue <=8 link / unlink / exit (the real lifecycle clean-up: terminate + Stopped) calls over 3-5 detached cells with 0-3 initial links, preemptible at every verif_point! in supervision.rs, terminate, set_status and the guard; oracle when all threads finished: supervisor and children views agree for every pair, an exited actor has neither supervisor nor children, and a child linked before the run under an actor that exited (and named by no other call) received the kill signal; non-trivial = an exit overlaps a link/unlink naming the same actor with >=1 preemption"
        }
    }

    #[derive(Clone, Debug, Serialize, Deserialize)]
    pub struct XCase {
        pub n: u8,
        pub init: Vec<(u8, u8)>,
        pub programs: Vec<Vec<TOp>>,
        pub choices: Vec<usize>,
        pub max_preempt: u32,
    }

    pub struct C05E2X;
    impl Part for C05E2X {
        type Case = XCase;
        const PROP: &'static str = "C05";
        const PART: &'static str = "e2-exhaustive";
        const EXHAUSTIVE: bool = true;
        fn cases(_tier: Tier) -> u32 {
            0
        }
        fn strategy(_tier: Tier) -> BoxedStrategy<XCase> {
            Just(XCase { n: 3, init: vec![], programs: vec![], choices: vec![], max_preempt: 0 }).boxed()
        }
        fn enumerate(tier: Tier, visit: &mut dyn FnMut(&XCase, Outcome) -> bool) {
            let bound = if tier == Tier::Quick { 2 } else { 3 };
            let l = |child, sup| TOp::Link { child, sup };
            let u = |child, sup| TOp::Unlink { child, sup };
            let progs: Vec<(Vec<(u8, u8)>, Vec<Vec<TOp>>)> = vec![
                (vec![], vec![vec![l(1, 0)], vec![TOp::Exit(0)]]),
                (vec![], vec![vec![l(1, 0)], vec![TOp::Exit(1)]]),
                (vec![(1, 0)], vec![vec![u(1, 0)], vec![TOp::Exit(0)]]),
                (vec![(1, 0)], vec![vec![l(1, 2)], vec![TOp::Exit(0)]]),
                (vec![(1, 0), (2, 1)], vec![vec![TOp::Exit(0)], vec![TOp::Exit(1)]]),
                (vec![], vec![vec![l(2, 1)], vec![l(1, 0)], vec![TOp::Exit(0)]]),
                (vec![(1, 0)], vec![vec![l(1, 2), l(1, 0)], vec![TOp::Exit(2)]]),
            ];
            for (init, programs) in progs {
                let case = Case { n: 3, init: init.clone(), programs: programs.clone(), schedule: vec![] };
                let (_n, complete) = crate::e2::enumerate_schedules(2_000_000, |choices| {
                    let (mut o, log) = run_case(&case, false, Some(Sched::Explicit(choices.clone(), Some(bound))), &[]);
                    o.nontrivial = log.iter().any(|c| c.0 != 0);
                    let xc = XCase { n: 3, init: init.clone(), programs: programs.clone(), choices: log.iter().map(|c| c.0).collect(), max_preempt: bound };
                    if !visit(&xc, o) {
                        return vec![];
                    }
                    log
                });
                if !complete {
                    return;
                }
            }
        }
        fn run(case: &XCase, want_trace: bool) -> Outcome {
            let c = Case { n: case.n, init: case.init.clone(), programs: case.programs.clone(), schedule: vec![] };
            let mut o = run_case(&c, want_trace, Some(Sched::Explicit(case.choices.clone(), Some(case.max_preempt))), &[]).0;
            o.nontrivial = case.choices.iter().any(|c| *c != 0);
            o
        }
        fn rule() -> &'static str {
            "bounded exhaustive generation: every schedule with at most 2 (quick) / 3 (thorough) preemptions of seven small programs over three cells ({link|exit sup}, {link|exit child}, {unlink|exit}, {relink|exit old sup}, {exit|exit} on a chain, {link|link|exit} building a chain, {relink;relink back|exit}); same oracle as part e2"
        }
    }

    #[derive(Clone, Debug, Serialize, Deserialize)]
    pub struct FreeCase {
        pub case: Case,
        pub spin: Vec<u32>,
        pub rounds: u16,
    }

    pub struct C05Free;
    impl Part for C05Free {
        type Case = FreeCase;
        const PROP: &'static str = "C05";
        const PART: &'static str = "free";
        const DETERMINISTIC: bool = false;
        fn cases(tier: Tier) -> u32 {
            match tier {
                Tier::Quick => 1_600,
                Tier::Thorough => 60_000,
            }
        }
        fn strategy(_tier: Tier) -> BoxedStrategy<FreeCase> {
            (strategy(), proptest::collection::vec(0u32..800, 4)).prop_map(|(case, spin)| FreeCase { case, spin, rounds: 15 }).boxed()
        }
        fn run(fc: &FreeCase, want_trace: bool) -> Outcome {
            let mut nontrivial = false;
            for _ in 0..fc.rounds {
                let (o, _) = run_case(&fc.case, want_trace, None, &fc.spin);
                match o.verdict {
                    Verdict::Fail(mut v) => {
                        v.msg = format!("(free-running threads; observed history) {}", v.msg);
                        return Outcome { verdict: Verdict::Fail(v), nontrivial: false, labels: vec![], trace: o.trace };
                    }
                    _ => nontrivial |= o.nontrivial,
                }
            }
            Outcome::pass(nontrivial || fc.case.programs.len() >= 2, vec![])
        }
        fn rule() -> &'static str {
            "the e2 generator on uncontrolled OS threads released from a barrier with generated busy-wait offsets, 15 rounds per case; same oracle (sound for every interleaving: it only inspects the state after all threads finished); non-trivial = at least two threads"
        }
    }
}
