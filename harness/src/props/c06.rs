//! C06 — shutdown waits are accurate and never miss the wake-up (E1 part)

use proptest::prelude::*;

use crate::core::*;
use crate::gate::DriveEnd;
use crate::gen;
use crate::runner::*;

pub struct C06;

const S: u8 = 0;
const T: u8 = 1;
const C1: u8 = 2;
const C2: u8 = 3;
const B: u8 = 4;

fn awaits(max: usize) -> BoxedStrategy<Vec<Act>> {
    proptest::collection::vec(prop_oneof![3 => Just(Act::Yield), 1 => (0u16..3).prop_map(Act::Sleep)], 0..=max).boxed()
}

pub fn strategy(tier: Tier) -> BoxedStrategy<Scenario> {
    let max_sched = if tier == Tier::Quick { 128 } else { 256 };
    let tmo = prop_oneof![2 => Just(None), 1 => (1u16..12).prop_map(Some)];
    let wait_op = prop_oneof![
        4 => tmo.clone().prop_map(|t| Op::Wait { to: T, timeout_ms: t }),
        2 => tmo.clone().prop_map(|t| Op::StopAndWait { to: T, timeout_ms: t }),
        2 => tmo.clone().prop_map(|t| Op::KillAndWait { to: T, timeout_ms: t }),
        2 => tmo.prop_map(|t| Op::DrainAndWait { to: T, timeout_ms: t }),
        1 => Just(Op::AwaitHandle(T)),
    ];
    let waiter = (0usize..14, prop_oneof![3 => Just(0u16), 1 => 1u16..8], proptest::collection::vec(wait_op, 1..=2)).prop_map(|(d, sl, ops)| {
        let mut v = vec![Op::Yield; d];
        if sl > 0 {
            v.push(Op::Sleep(sl));
        }
        v.extend(ops);
        v
    });
    let cause = prop_oneof![
        2 => Just(vec![Op::Stop(T)]),
        1 => Just(vec![Op::StopReason(T)]),
        2 => Just(vec![Op::Drain(T)]),
        2 => Just(vec![Op::Kill(T)]),
        2 => Just(vec![Op::AbortTask(T)]),
        2 => Just(vec![Op::Cast { to: T, seq: 666 }]), // triggers the failing handler script (if any)
        1 => Just(vec![Op::Kill(S)]),
        1 => Just(vec![Op::Stop(S)]),
        1 => Just(vec![]),
    ];
    (
        prop_oneof![6 => Just((Variant::Linked, false)), 4 => Just((Variant::TlLinked, false)), 1 => Just((Variant::Spawn, true)), 1 => Just((Variant::Spawn, false))],
        (awaits(2), awaits(2), awaits(3)),
        prop_oneof![2 => Just(None), 1 => Just(Some(Act::Fail)), 1 => Just(Some(Act::Panic))],
        prop_oneof![3 => Just(None), 1 => Just(Some(Act::Fail))], // post_stop failure
        (0u8..=2, 0u8..=2),                                        // groups joined by T, children of T
        proptest::collection::vec(waiter, 1..=4),
        (0usize..10, cause),
        0u32..4, // backlog casts
        gen::schedule(max_sched),
    )
        .prop_map(|((tv, drop_panics), (pre, post, stop), hfail, psfail, (ngroups, nchildren), waiters, (cdelay, cause), backlog, schedule)| {
            let mut t = ActorSpec { variant: Some(tv), name: Some(0), parent: Some(S), pre_start: pre, post_start: post, post_stop: stop, sup_stops: false, state_drop_panics: drop_panics, ..Default::default() };
            if !tv.is_linked() {
                t.parent = None;
            }
            for g in 0..ngroups {
                t.pre_start.push(Act::Join(g));
            }
            t.handle = vec![match hfail {
                Some(bad) => vec![Act::Yield, bad],
                None => vec![Act::Yield],
            }];
            if let Some(bad) = psfail {
                t.post_stop.push(bad);
            }
            let sup = ActorSpec { variant: Some(Variant::Spawn), sup: vec![vec![Act::Yield]], sup_stops: false, ..Default::default() };
            let child = |v| ActorSpec { variant: Some(v), parent: Some(T), ..Default::default() };
            let by = ActorSpec { variant: Some(Variant::Spawn), pre_start: vec![Act::Join(0)], ..Default::default() };
            let specs = vec![sup, t, child(Variant::Linked), child(Variant::TlLinked), by];
            let mut c0 = vec![Op::Spawn(S), Op::Spawn(B), Op::Spawn(T)];
            if nchildren >= 1 {
                c0.push(Op::Spawn(C1));
            }
            if nchildren >= 2 {
                c0.push(Op::Spawn(C2));
            }
            for q in 0..backlog {
                c0.push(Op::Cast { to: T, seq: q });
            }
            let mut cc = vec![Op::Yield; cdelay];
            cc.extend(cause);
            // the unconditional killer: no honest wait can hang
            let killer = vec![Op::Sleep(40), Op::Kill(T)];
            let mut clients = vec![c0, cc, killer];
            clients.extend(waiters);
            Scenario { specs, clients, schedule }
        })
        .boxed()
}

pub fn check(sc: &Scenario, ex: &Exec, regression: &Option<String>) -> Result<(bool, Vec<String>), Violation> {
    let tr = &ex.trace;
    let t = T as usize;
    let mut labels = vec![];
    if let Some(r) = regression {
        return Err(viol("C06/status-regressed", r.clone()));
    }
    let op_of = |c: usize, i: usize| sc.clients.get(c).and_then(|ops| ops.get(i));
    let stopping_pos = tr.iter().position(|e| matches!(&e.ev, Ev::Status { a, st } if *a == t && *st >= 5));
    let stopped_pos = tr.iter().position(|e| matches!(&e.ev, Ev::Status { a, st } if *a == t && *st >= 6));
    let stopped_t = stopped_pos.map(|p| tr[p].t_ns);
    let mut nontrivial = false;
    let mut late_waiters = 0;
    let mut open: std::collections::HashMap<(usize, usize), usize> = Default::default();
    let mut last_snap: Option<usize> = None;
    for (pos, e) in tr.iter().enumerate() {
        match &e.ev {
            Ev::OpStart { c, i } => {
                open.insert((*c, *i), pos);
            }
            Ev::Snap { a, .. } if *a == t => last_snap = Some(pos),
            Ev::OpEnd { c, i, res } => {
                let start = open.remove(&(*c, *i)).unwrap_or(pos);
                let op = op_of(*c, *i);
                let (is_wait, tmo) = match op {
                    Some(Op::Wait { to: T, timeout_ms }) | Some(Op::StopAndWait { to: T, timeout_ms }) | Some(Op::KillAndWait { to: T, timeout_ms }) | Some(Op::DrainAndWait { to: T, timeout_ms }) => (true, *timeout_ms),
                    Some(Op::AwaitHandle(T)) => (true, None),
                    _ => (false, None),
                };
                if !is_wait || *res == Res::Skipped {
                    continue;
                }
                let snap = last_snap.filter(|p| *p > start).map(|p| &tr[p].ev);
                let elapsed = e.t_ns - tr[start].t_ns;
                match res {
                    Res::Ok => {
                        let Some(Ev::Snap { status, name_hit, pid_hit, in_groups, pointed_at_by, own_children, has_supervisor, listed_by, .. }) = snap else {
                            return Err(viol("C06/harness-no-snapshot", format!("no snapshot for waiter at #{pos}")));
                        };
                        let what = format!("{:?}", op.unwrap());
                        if *status != 6 {
                            return Err(viol("C06/returned-before-stopped", format!("{what} returned Ok at #{pos} but the actor's status is {status}")));
                        }
                        // post_stop finished?
                        let mut ps_open = false;
                        for x in &tr[..pos] {
                            match &x.ev {
                                Ev::Enter { a, cb: Cb::PostStop, .. } if *a == t => ps_open = true,
                                Ev::Exit { a, cb: Cb::PostStop, .. } | Ev::Unwind { a, cb: Cb::PostStop, .. } if *a == t => ps_open = false,
                                _ => {}
                            }
                        }
                        if ps_open {
                            return Err(viol("C06/returned-during-post_stop", format!("{what} returned Ok at #{pos} while post_stop was still running")));
                        }
                        if *name_hit {
                            return Err(viol("C06/name-still-registered", format!("{what} returned Ok at #{pos} but where_is(name) still yields the actor")));
                        }
                        if *pid_hit {
                            return Err(viol("C06/pid-still-registered", format!("{what} returned Ok at #{pos} but where_is_pid still yields the actor")));
                        }
                        if !in_groups.is_empty() {
                            return Err(viol("C06/still-in-groups", format!("{what} returned Ok at #{pos} but the actor is still a member of groups {in_groups:?}")));
                        }
                        if !pointed_at_by.is_empty() || *own_children != 0 {
                            return Err(viol("C06/children-not-released", format!("{what} returned Ok at #{pos} but children {pointed_at_by:?} still point at it / it lists {own_children} children")));
                        }
                        if *has_supervisor || !listed_by.is_empty() {
                            return Err(viol("C06/still-linked", format!("{what} returned Ok at #{pos} but it still has a supervisor ({has_supervisor}) / is listed by {listed_by:?}")));
                        }
                        if let Some(ms) = tmo {
                            if elapsed > ms as u64 * 1_000_000 {
                                return Err(viol("C06/late-return", format!("{what} returned Ok {elapsed}ns after it began, later than its timeout")));
                            }
                        }
                        if let (Some(sg), Some(sd)) = (stopping_pos, stopped_pos) {
                            if start < sd && pos > sg {
                                nontrivial = true;
                            }
                            if start > sd {
                                late_waiters += 1;
                            }
                        }
                    }
                    Res::Timeout => {
                        let Some(ms) = tmo else {
                            return Err(viol("C06/timeout-without-timeout", format!("wait without timeout reported Timeout at #{pos}")));
                        };
                        if elapsed != ms as u64 * 1_000_000 {
                            return Err(viol("C06/timeout-at-wrong-time", format!("timeout of {ms}ms reported after {elapsed}ns")));
                        }
                        // the actor must not have been Stopped strictly before that instant
                        if let Some(st) = stopped_t {
                            if st < e.t_ns && stopped_pos.unwrap() < start {
                                return Err(viol("C06/timeout-on-stopped-actor", format!("wait began at #{start} after the actor was already Stopped (t={st}ns) and still timed out")));
                            }
                            if st < tr[start].t_ns + ms as u64 * 1_000_000 && stopped_pos.unwrap() < pos && st < e.t_ns {
                                return Err(viol("C06/timeout-although-stopped-in-time", format!("actor was Stopped at t={st}ns, before the waiter's deadline t={}ns, yet the wait timed out", e.t_ns)));
                            }
                        }
                        labels.push("wait-timed-out".into());
                    }
                    Res::Err(_) => {
                        // stop_and_wait on an actor whose stop port is gone etc.: an error, not a wait
                        labels.push("wait-returned-err".into());
                    }
                    other => return Err(viol("C06/unexpected-wait-result", format!("{other:?} at #{pos}"))),
                }
            }
            _ => {}
        }
    }
    if late_waiters >= 2 {
        nontrivial = true;
        labels.push("late-waiters>=2".into());
    }
    // a timed-out plain wait has no effect: covered by completeness below (the actor still dies only by a listed cause)
    // at quiescence (before the sweep): T is Stopped, its children are Stopped, S heard exactly once
    if ex.end_main == DriveEnd::Done {
        let t_seen = tr.iter().any(|e| matches!(&e.ev, Ev::Status { a, .. } if *a == t));
        if t_seen && stopped_pos.map_or(true, |p| p > ex.cut) {
            return Err(viol("C06/never-stopped", "the target was killed unconditionally but never reached Stopped"));
        }
        for ch in [C1 as usize, C2 as usize] {
            let spawned = tr.iter().any(|e| matches!(&e.ev, Ev::Exit { a, cb: Cb::PreStart, ok: true } if *a == ch));
            let linked = spawned
                && !tr.iter().any(|e| matches!(&e.ev, Ev::OpEnd { c, i, res: Res::Err(_) } if matches!(op_of(*c, *i), Some(Op::Spawn(x)) if *x as usize == ch)));
            if linked {
                let dead = tr[..ex.cut].iter().any(|e| matches!(&e.ev, Ev::Status { a, st: 6 } if *a == ch));
                if !dead {
                    return Err(viol("C06/child-survived", format!("child {ch} of the stopped actor is still not Stopped at quiescence")));
                }
            }
        }
        let s_exits = tr[..ex.cut].iter().any(|e| matches!(&e.ev, Ev::Status { a: 0, st } if *st >= 5));
        let t_started = tr.iter().any(|e| matches!(&e.ev, Ev::Exit { a, cb: Cb::PreStart, ok: true } if *a == t))
            && !tr.iter().any(|e| matches!(&e.ev, Ev::OpEnd { c, i, res: Res::Err(_) } if matches!(op_of(*c, *i), Some(Op::Spawn(T)))));
        if !s_exits && t_started && sc.specs[t].variant().is_linked() {
            let n = tr[..ex.cut]
                .iter()
                .filter(|e| matches!(&e.ev, Ev::Enter { a: 0, cb: Cb::Sup, tag: Tag::Terminated { who: 1, .. } } | Ev::Enter { a: 0, cb: Cb::Sup, tag: Tag::Failed { who: 1, .. } }))
                .count();
            if n != 1 {
                return Err(viol("C06/supervisor-told-wrong-count", format!("supervisor received {n} terminal events for the target")));
            }
        }
    }
    Ok((nontrivial, labels))
}

impl Part for C06 {
    type Case = Scenario;
    const PROP: &'static str = "C06";
    const PART: &'static str = "e1";
    fn cases(tier: Tier) -> u32 {
        match tier {
            Tier::Quick => 100_000,
            Tier::Thorough => 2_000_000,
        }
    }
    fn strategy(tier: Tier) -> BoxedStrategy<Scenario> {
        strategy(tier)
    }
    fn run(case: &Scenario, want_trace: bool) -> Outcome {
        let sampler = std::rc::Rc::new(std::cell::RefCell::new(StatusSampler::default()));
        let s2 = sampler.clone();
        let ex = exec_scenario(case, ExecOpts::default(), move |w, _, _| s2.borrow_mut().sample(w), |_| vec![]);
        let trace = if want_trace { fmt_trace(&ex.trace) } else { vec![] };
        if let Some(p) = &ex.client_panic {
            return Outcome { verdict: Verdict::Fail(viol("C06/client-panic", p.clone())), nontrivial: false, labels: vec![], trace };
        }
        let regression = sampler.borrow().regression.clone();
        match check(case, &ex, &regression) {
            Err(v) => Outcome { verdict: Verdict::Fail(v), nontrivial: false, labels: vec![], trace },
            Ok((nontrivial, labels)) => {
                if ex.end_main == DriveEnd::Budget || ex.end_sweep == DriveEnd::Budget {
                    return Outcome { verdict: Verdict::Inconclusive("step budget".into()), nontrivial: false, labels, trace };
                }
                if ex.end_main == DriveEnd::Stuck {
                    return Outcome { verdict: Verdict::Fail(viol("C06/waiter-stuck", "a waiter is blocked forever although the target was killed unconditionally (lost wake-up)")), nontrivial, labels, trace };
                }
                if ex.end_sweep == DriveEnd::Stuck {
                    return Outcome { verdict: Verdict::Fail(viol("C06/stuck-after-kill", "tasks blocked after the final sweep")), nontrivial, labels, trace };
                }
                Outcome { verdict: Verdict::Pass, nontrivial, labels, trace }
            }
        }
    }
    fn rule() -> &'static str {
        "generated target actor (named, in 0-2 groups, 0-2 children, linked under a logging supervisor; Send or thread-local) with a generated exit cause (stop, drain, kill, task abort, failing handler/post_stop, supervisor exit) and 1-4 waiter clients (wait/stop_and_wait/kill_and_wait/drain_and_wait with and without timeouts, join handle, repeated and late calls) started after generated delays, an unconditional late kill, schedule bytes; oracle = world snapshot taken in the very step a waiter returns + exact virtual-time timeout rule + no stuck waiter + monotone sampled status; non-trivial = a waiter's interval overlaps the target's Stopping..Stopped interval, or >=2 waiters began after Stopped"
    }
}

// =====================================================================================
// E2 / free-running parts: wait() vs. the real exit clean-up on OS threads

pub mod e2part {
    use std::sync::{Arc, Mutex};

    use proptest::prelude::*;
    use ractor::verif::{DetachedPorts, LifecycleHandle};
    use ractor::{ActorCell, SupervisionEvent};
    use serde::{Deserialize, Serialize};

    use crate::core::{viol, Violation};
    use crate::e2::{run_threads, run_threads_free, E2Run, Sched, ThreadCtx};
    use crate::gen;
    use crate::props::c07::Dummy;
    use crate::runner::*;

    #[derive(Clone, Debug, PartialEq, Eq, Serialize, Deserialize)]
    pub enum WOp {
        /// the real lifecycle clean-up of the target (what the actor task does when it ends)
        Exit,
        Wait,
        /// a no-op operation (only its surrounding schedule points matter)
        Nop,
        Stop,
        Kill,
    }

    #[derive(Clone, Debug, Serialize, Deserialize)]
    pub struct Case {
        pub programs: Vec<Vec<WOp>>,
        pub schedule: Vec<u8>,
    }

    #[derive(Clone, Debug, PartialEq)]
    pub enum RW {
        Done,
        /// what the waiter saw the moment wait() returned
        Returned { status: u8, name_hit: bool, pid_hit: bool, in_group: bool, children: usize, child_points: bool, sup_events: usize, child_killed: bool, has_sup: bool },
        LostWakeup,
    }

    pub struct Shared {
        t: ActorCell,
        c: ActorCell,
        name: String,
        group: String,
        t_ports: Mutex<Option<DetachedPorts>>,
        s_ports: Mutex<DetachedPorts>,
        c_ports: Mutex<DetachedPorts>,
        sup_events: Mutex<usize>,
        child_killed: Mutex<bool>,
        exited: Mutex<bool>,
    }

    static N: std::sync::atomic::AtomicU64 = std::sync::atomic::AtomicU64::new(0);

    fn setup() -> (Arc<Shared>, ActorCell) {
        let n = N.fetch_add(1, std::sync::atomic::Ordering::Relaxed);
        let name = format!("c06e2_{}_{}", std::process::id(), n);
        let group = format!("c06e2g_{}_{}", std::process::id(), n);
        let (s, s_ports) = ractor::verif::detached_cell::<Dummy>(None).unwrap();
        let (t, t_ports) = ractor::verif::detached_cell::<Dummy>(Some(name.clone())).unwrap();
        let (c, c_ports) = ractor::verif::detached_cell::<Dummy>(None).unwrap();
        for cell in [&s, &t, &c] {
            ractor::verif::set_status(cell, ractor::ActorStatus::Running);
        }
        assert!(ractor::verif::try_link(&t, s.clone()));
        assert!(ractor::verif::try_link(&c, t.clone()));
        ractor::pg::join(group.clone(), vec![t.clone()]);
        (
            Arc::new(Shared {
                t,
                c,
                name,
                group,
                t_ports: Mutex::new(Some(t_ports)),
                s_ports: Mutex::new(s_ports),
                c_ports: Mutex::new(c_ports),
                sup_events: Mutex::new(0),
                child_killed: Mutex::new(false),
                exited: Mutex::new(false),
            }),
            s,
        )
    }

    fn exec(sh: &Shared, ctx: &ThreadCtx, _tid: usize, op: &WOp) -> RW {
        match op {
            WOp::Nop => RW::Done,
            WOp::Stop => {
                sh.t.stop(None);
                RW::Done
            }
            WOp::Kill => {
                sh.t.kill();
                RW::Done
            }
            WOp::Exit => {
                {
                    let mut e = sh.exited.lock().unwrap();
                    if *e {
                        return RW::Done;
                    }
                    *e = true;
                }
                // the exiting task drops its port set, then its guard finishes
                drop(sh.t_ports.lock().unwrap().take());
                let mut h = LifecycleHandle::new(sh.t.clone());
                h.mark_running();
                h.finish(SupervisionEvent::ActorTerminated(sh.t.clone(), None, Some("bye".into())));
                RW::Done
            }
            WOp::Wait => match ctx.block_on(sh.t.wait(None)) {
                None => RW::LostWakeup,
                Some(_) => {
                    // drain what the supervisor / child have received so far into the shared counters
                    {
                        let mut sp = sh.s_ports.lock().unwrap();
                        let mut n = sh.sup_events.lock().unwrap();
                        while let Some(e) = sp.try_recv_supervision() {
                            if matches!(e, SupervisionEvent::ActorTerminated(..) | SupervisionEvent::ActorFailed(..)) {
                                *n += 1;
                            }
                        }
                    }
                    {
                        let mut cp = sh.c_ports.lock().unwrap();
                        if cp.try_recv_signal().is_some() {
                            *sh.child_killed.lock().unwrap() = true;
                        }
                    }
                    RW::Returned {
                        status: sh.t.get_status() as u8,
                        name_hit: ractor::registry::where_is(&sh.name).map_or(false, |x| x.get_id() == sh.t.get_id()),
                        pid_hit: ractor::registry::where_is_pid(sh.t.get_id()).is_some(),
                        in_group: ractor::pg::get_members(&sh.group).iter().any(|m| m.get_id() == sh.t.get_id()),
                        children: sh.t.get_children().len(),
                        child_points: sh.c.try_get_supervisor().map_or(false, |p| p.get_id() == sh.t.get_id()),
                        sup_events: *sh.sup_events.lock().unwrap(),
                        child_killed: *sh.child_killed.lock().unwrap(),
                        has_sup: sh.t.try_get_supervisor().is_some(),
                    }
                }
            },
        }
    }

    pub fn strategy() -> BoxedStrategy<Case> {
        let waiter = (0usize..4, 1usize..=2).prop_map(|(d, n)| {
            let mut v = vec![WOp::Nop; d];
            v.extend(vec![WOp::Wait; n]);
            v
        });
        let exiter = (0usize..4, prop_oneof![3 => Just(None), 1 => Just(Some(WOp::Stop)), 1 => Just(Some(WOp::Kill))]).prop_map(|(d, pre)| {
            let mut v = vec![WOp::Nop; d];
            v.extend(pre);
            v.push(WOp::Exit);
            v
        });
        (exiter, proptest::collection::vec(waiter, 1..=3), gen::schedule(64))
            .prop_map(|(e, ws, schedule)| {
                let mut programs = vec![e];
                programs.extend(ws);
                Case { programs, schedule }
            })
            .boxed()
    }

    fn judge(case: &Case, run: &E2Run<RW>) -> Result<(bool, Vec<String>), Violation> {
        let mut overlap = false;
        let exit_iv = run.recs.iter().find(|r| case.programs[r.tid][r.idx] == WOp::Exit).map(|r| (r.start, r.end));
        let mut late = 0;
        for r in &run.recs {
            if case.programs[r.tid][r.idx] != WOp::Wait {
                continue;
            }
            match &r.res {
                RW::LostWakeup => {
                    return Err(viol("C06/lost-wakeup", format!("thread {} is blocked in wait() forever although the exit completed (exit interval {exit_iv:?}, wait began at {})", r.tid, r.start)));
                }
                RW::Returned { status, name_hit, pid_hit, in_group, children, child_points, sup_events, child_killed, has_sup } => {
                    if *status != 6 {
                        return Err(viol("C06/returned-before-stopped", format!("wait() returned with status {status}")));
                    }
                    if *name_hit || *pid_hit {
                        return Err(viol("C06/name-or-pid-still-registered", format!("wait() returned but name_hit={name_hit} pid_hit={pid_hit}")));
                    }
                    if *in_group {
                        return Err(viol("C06/still-in-groups", "wait() returned but the actor is still a group member"));
                    }
                    if *children != 0 || *child_points || *has_sup {
                        return Err(viol("C06/children-not-released", format!("wait() returned but children={children} child_points={child_points} has_supervisor={has_sup}")));
                    }
                    if *sup_events != 1 {
                        return Err(viol("C06/supervisor-not-told", format!("wait() returned but the supervisor's port holds {sup_events} terminal events")));
                    }
                    if !*child_killed {
                        return Err(viol("C06/child-not-signalled", "wait() returned but the child's signal port is empty"));
                    }
                    if let Some((es, ee)) = exit_iv {
                        if r.start < ee && es < r.end {
                            overlap = true;
                        }
                        if r.start > ee {
                            late += 1;
                        }
                    }
                }
                RW::Done => {}
            }
        }
        if run.deadlock {
            return Err(viol("C06/lost-wakeup", "all remaining threads are blocked in wait() (deadlock verdict)"));
        }
        Ok(((overlap && run.preemptions > 0) || late >= 2, vec![]))
    }

    fn cleanup(sh: &Shared, s: &ActorCell) {
        for cell in [&sh.t, &sh.c, s] {
            ractor::verif::set_status(cell, ractor::ActorStatus::Stopped);
        }
    }

    pub fn run_case(case: &Case, want_trace: bool, sched: Sched) -> (Outcome, Vec<(usize, usize)>) {
        let (sh, s) = setup();
        let run = run_threads(sh.clone(), case.programs.clone(), sched, exec);
        cleanup(&sh, &s);
        let trace = if want_trace {
            run.recs.iter().map(|r| format!("thread {} op {} {:?} [{}..{}] -> {:?}", r.tid, r.idx, case.programs[r.tid][r.idx], r.start, r.end, r.res)).collect()
        } else {
            vec![]
        };
        let log = run.choice_log.clone();
        let o = match judge(case, &run) {
            Err(v) => Outcome { verdict: Verdict::Fail(v), nontrivial: false, labels: vec![], trace },
            Ok((nt, labels)) => Outcome { verdict: Verdict::Pass, nontrivial: nt, labels, trace },
        };
        (o, log)
    }

    pub struct C06E2;
    impl Part for C06E2 {
        type Case = Case;
        const PROP: &'static str = "C06";
        const PART: &'static str = "e2";
        fn cases(tier: Tier) -> u32 {
            match tier {
                Tier::Quick => 30_000,
                Tier::Thorough => 1_000_000,
            }
        }
        fn strategy(_tier: Tier) -> BoxedStrategy<Case> {
            strategy()
        }
        fn run(case: &Case, want_trace: bool) -> Outcome {
            run_case(case, want_trace, Sched::Bytes(case.schedule.clone())).0
        }
        fn rule() -> &'static str {
            "controlled OS threads over detached cells (supervisor, named+grouped target, child): one thread runs the target's real exit clean-up (port-set drop + lifecycle guard), 1-3 threads call wait() (1-2 times, after generated delays) under a minimal block_on; preemption at every verif_point! inside wait(), set_status, the clean-up steps and notify_stop_listener; oracle = snapshot at the moment wait() returns (Stopped, name/pid/group gone, links released, supervisor's port already holds the terminal event, child's signal port holds Kill) + deadlock verdict (a blocked waiter after the exit completed = lost wake-up); non-trivial = a wait interval overlaps the exit interval with >=1 preemption, or >=2 waits began after the exit"
        }
    }

    #[derive(Clone, Debug, Serialize, Deserialize)]
    pub struct XCase {
        pub programs: Vec<Vec<WOp>>,
        pub choices: Vec<usize>,
        pub max_preempt: u32,
    }

    pub struct C06E2X;
    impl Part for C06E2X {
        type Case = XCase;
        const PROP: &'static str = "C06";
        const PART: &'static str = "e2-exhaustive";
        const EXHAUSTIVE: bool = true;
        fn cases(_tier: Tier) -> u32 {
            0
        }
        fn strategy(_tier: Tier) -> BoxedStrategy<XCase> {
            Just(XCase { programs: vec![], choices: vec![], max_preempt: 0 }).boxed()
        }
        fn enumerate(tier: Tier, visit: &mut dyn FnMut(&XCase, Outcome) -> bool) {
            let bound = if tier == Tier::Quick { 2 } else { 3 };
            let progs = vec![
                vec![vec![WOp::Exit], vec![WOp::Wait]],
                vec![vec![WOp::Exit], vec![WOp::Wait], vec![WOp::Wait]],
                vec![vec![WOp::Exit], vec![WOp::Wait, WOp::Wait]],
            ];
            for programs in progs {
                let case = Case { programs: programs.clone(), schedule: vec![] };
                let (_n, complete) = crate::e2::enumerate_schedules(2_000_000, |choices| {
                    let (mut o, log) = run_case(&case, false, Sched::Explicit(choices.clone(), Some(bound)));
                    o.nontrivial = log.iter().any(|c| c.0 != 0);
                    let xc = XCase { programs: programs.clone(), choices: log.iter().map(|c| c.0).collect(), max_preempt: bound };
                    if !visit(&xc, o) {
                        return vec![];
                    }
                    log
                });
                if !complete {
                    return;
                }
            }
        }
        fn run(case: &XCase, want_trace: bool) -> Outcome {
            let c = Case { programs: case.programs.clone(), schedule: vec![] };
            let mut o = run_case(&c, want_trace, Sched::Explicit(case.choices.clone(), Some(case.max_preempt))).0;
            o.nontrivial = case.choices.iter().any(|c| *c != 0);
            o
        }
        fn rule() -> &'static str {
            "bounded exhaustive generation: every schedule with at most 2 (quick) / 3 (thorough) preemptions of {exit|wait}, {exit|wait|wait}, {exit|wait;wait}; same oracle as part e2"
        }
    }

    #[derive(Clone, Debug, Serialize, Deserialize)]
    pub struct FreeCase {
        pub programs: Vec<Vec<WOp>>,
        pub spin: Vec<u32>,
        pub rounds: u16,
    }

    pub struct C06Free;
    impl Part for C06Free {
        type Case = FreeCase;
        const PROP: &'static str = "C06";
        const PART: &'static str = "free";
        const DETERMINISTIC: bool = false;
        fn cases(tier: Tier) -> u32 {
            match tier {
                Tier::Quick => 1_600,
                Tier::Thorough => 60_000,
            }
        }
        fn strategy(_tier: Tier) -> BoxedStrategy<FreeCase> {
            (strategy(), proptest::collection::vec(0u32..3000, 4)).prop_map(|(c, spin)| FreeCase { programs: c.programs, spin, rounds: 10 }).boxed()
        }
        fn run(case: &FreeCase, want_trace: bool) -> Outcome {
            let c = Case { programs: case.programs.clone(), schedule: vec![] };
            let mut nontrivial = false;
            for _ in 0..case.rounds {
                let (sh, s) = setup();
                let run = run_threads_free(sh.clone(), c.programs.clone(), case.spin.clone(), exec);
                cleanup(&sh, &s);
                match judge(&c, &run) {
                    Err(mut v) => {
                        v.msg = format!("(free-running threads; observed history) {}", v.msg);
                        let trace = if want_trace { run.recs.iter().map(|r| format!("thread {} op {} [{}..{}] -> {:?}", r.tid, r.idx, r.start, r.end, r.res)).collect() } else { vec![] };
                        return Outcome { verdict: Verdict::Fail(v), nontrivial: false, labels: vec![], trace };
                    }
                    Ok((nt, _)) => nontrivial |= nt,
                }
            }
            Outcome { verdict: Verdict::Pass, nontrivial, labels: vec![], trace: vec![] }
        }
        fn rule() -> &'static str {
            "the programs of part e2 on free-running OS threads (barrier start, generated busy-wait offsets, 10 rounds per case; a wait() that is not woken within 3 s of real time after the exit completed counts as a lost wake-up); same snapshot oracle; non-trivial = a wait interval overlapped the exit interval or >=2 waits began after it"
        }
    }
}
