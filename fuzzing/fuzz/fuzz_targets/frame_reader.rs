#![no_main]
//! C19: the session's frame reader against an independent splitter, on fuzzer-chosen bytes,
//! frame limit and read fragmentation.
use libfuzzer_sys::fuzz_target;
use prost::Message as _;
use ractor_cluster::verif::framing::FrameReader;
use ractor_cluster::verif::proto::NetworkMessage;
use std::sync::{Arc, Mutex};

struct ChunkReader {
    data: Vec<u8>,
    pos: usize,
    frag: Vec<u8>,
    fpos: usize,
    stats: Arc<Mutex<(usize, usize)>>,
}

impl tokio::io::AsyncRead for ChunkReader {
    fn poll_read(mut self: std::pin::Pin<&mut Self>, _cx: &mut std::task::Context<'_>, buf: &mut tokio::io::ReadBuf<'_>) -> std::task::Poll<std::io::Result<()>> {
        let mut n = (self.data.len() - self.pos).min(buf.remaining());
        {
            let mut st = self.stats.lock().unwrap();
            st.0 = st.0.max(buf.remaining());
        }
        if !self.frag.is_empty() {
            let f = self.frag[self.fpos % self.frag.len()] as usize;
            self.fpos += 1;
            if f > 0 {
                n = n.min(f);
            }
        }
        let (a, b) = (self.pos, self.pos + n);
        buf.put_slice(&self.data[a..b]);
        self.pos += n;
        self.stats.lock().unwrap().1 = self.pos;
        std::task::Poll::Ready(Ok(()))
    }
}

const MAXES: [u64; 6] = [0, 16, 64, 1024, 70_000, 16 * 1024 * 1024];

fuzz_target!(|data: &[u8]| {
    if data.len() < 4 {
        return;
    }
    let max = MAXES[data[0] as usize % MAXES.len()];
    let nfrag = (data[1] % 3) as usize;
    let frag: Vec<u8> = data[2..2 + nfrag.min(data.len() - 2)].to_vec();
    let stream: Vec<u8> = data[2 + frag.len()..].to_vec();

    // reference
    let mut expected: Vec<Option<NetworkMessage>> = vec![];
    let mut p = 0usize;
    let mut oversized_header_end = None;
    loop {
        if stream.len() - p < 8 {
            expected.push(None);
            break;
        }
        let len = u64::from_be_bytes(stream[p..p + 8].try_into().unwrap());
        if len > max || len > isize::MAX as u64 {
            oversized_header_end = Some(p + 8);
            expected.push(None);
            break;
        }
        let len = len as usize;
        if stream.len() - (p + 8) < len {
            expected.push(None);
            break;
        }
        match NetworkMessage::decode(&stream[p + 8..p + 8 + len]) {
            Ok(m) => {
                expected.push(Some(m));
                p += 8 + len;
            }
            Err(_) => {
                expected.push(None);
                break;
            }
        }
    }
    let stats = Arc::new(Mutex::new((0usize, 0usize)));
    let mut fr = FrameReader::new(Box::new(ChunkReader { data: stream.clone(), pos: 0, frag, fpos: 0, stats: stats.clone() }));
    let mut got: Vec<Option<NetworkMessage>> = vec![];
    futures::executor::block_on(async {
        loop {
            match fr.read(max).await {
                Ok(m) => got.push(Some(m)),
                Err(_) => {
                    got.push(None);
                    break;
                }
            }
        }
    });
    assert_eq!(got, expected, "C19: reader and independent splitter disagree");
    let (largest, consumed) = *stats.lock().unwrap();
    assert!(largest <= 8 * 1024, "C19: read request of {largest} bytes");
    if let Some(h) = oversized_header_end {
        assert!(consumed <= h, "C19: {} payload bytes of an oversized frame were consumed", consumed - h);
    }
    // re-encoding what was decoded and decoding again yields the same messages
    for m in got.iter().flatten() {
        let mut buf = vec![];
        ractor_cluster::verif::framing::encode(m, &mut buf);
        let len = u64::from_be_bytes(buf[..8].try_into().unwrap()) as usize;
        assert_eq!(len + 8, buf.len());
        assert_eq!(&NetworkMessage::decode(&buf[8..]).expect("re-decode"), m);
    }
});
