#!/usr/bin/env python3
"""Regenerates MANIFEST.json from the table below (keeps it valid at all times)."""
import json, subprocess
BASE = "cd /repo && (cargo nextest run --workspace --no-fail-fast --tool-config-file pb:/w/lib/nextest.toml --profile pb --test-threads 8 --offline || cargo test --workspace --no-fail-fast --offline)"
checks = {
 # id: (level, text, note, technique, engine)
 "C01": ("exploration", "Generated scenarios (scripted Send/thread-local actors, clients, schedule bytes) on a harness-owned task schedule; trace-grammar and non-overlap oracle over the whole recorded history; default and async-trait builds.", "Schedules at task-poll granularity on a single-threaded paused-clock tokio runtime; tokio back end only.", "property-based testing: stateful generated scenarios + generated schedules, trace-grammar oracle (proptest, shrinking to replay file)", "E1"),
}
props = [json.loads(l) for l in open('/verif/properties.jsonl')]
commits = subprocess.run(["git","-C","/repo","log","--format=%h %s","c0c5d6d..HEAD"],capture_output=True,text=True).stdout.strip().splitlines()
hook_commits=[c.split()[0] for c in commits if 'verif hook' in c]
m = {
 "version": 1,
 "setup_cmd": "cd /verif/harness && CARGO_NET_OFFLINE=true cargo build --release",
 "hooks": {
   "guard": "cargo feature slawlor_ractor_verif (ractor, forwarded by ractor_cluster)",
   "enable": "the harness crates depend on /repo/ractor (and /repo/ractor_cluster) by path with features=[\"slawlor_ractor_verif\"]; /verif/check rebuilds them from /repo's working tree on every run",
   "baseline_off_cmd": BASE,
   "source_commits": hook_commits,
   "add_only": True,
 },
 "engines": [
   {"name":"E1","path":"harness/src/gate.rs","serves_properties":sorted(k for k,v in checks.items() if 'E1' in v[4]),"kind_free_text":"harness-owned task schedule over a paused-clock current-thread tokio runtime; proptest-generated scenarios and schedule bytes; trace oracles"},
 ],
 "checks": [],
 "not_applicable": [],
 "notes": "See DESIGN.md. Exit codes of every command: 0 held on everything explored, 1 + VIOLATION line, 2 inconclusive/harness error (never a violation).",
}
for p in props:
    i=p['id']
    if i in checks:
        lvl,text,note,tech,eng=checks[i]
        m["checks"].append({
          "property_id": i,
          "quick_cmd": f"./check {i} quick",
          "thorough_cmd": f"./check {i} thorough",
          "evidence_file": f"/verif/evidence/{i}.json",
          "replay_cmd_template": f"/verif/harness/target/release/rv replay {i} {{path}}",
          "engine": eng,
          "level_claimed": {"category": lvl, "text": text, "design_ref": f"DESIGN.md §4 {i}"},
          "level_note": note,
          "technique": tech,
        })
    else:
        m["not_applicable"].append({"property_id": i, "reason": "check not built yet (work in progress; the design in DESIGN.md §4 applies) — not claimed until its check exists and has passed its sensitivity and silence tests"})
json.dump(m, open('/verif/MANIFEST.json','w'), indent=1)
print("checks:", [c['property_id'] for c in m['checks']])
