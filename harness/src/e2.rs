//! E2: controlled OS threads. Exactly one controlled thread runs at a time; at every
//! `verif_point!` (hook H2) the running thread may hand the token to another thread chosen by
//! the next schedule byte (0 = keep running, so the all-zero schedule is sequential).

use std::future::Future;
use std::pin::Pin;
use std::sync::{Arc, Condvar, Mutex};
use std::task::{Context, Poll, Wake, Waker};

use ractor::verif::PointHook;

#[derive(Clone, Copy, PartialEq, Eq, Debug)]
enum TSt {
    Runnable,
    Blocked,
    Done,
}

struct CtlState {
    status: Vec<TSt>,
    token: Option<usize>,
    sched: Vec<u8>,
    pos: usize,
    clock: u64,
    preemptions: u32,
    points: u32,
    deadlock: bool,
    labels: std::collections::BTreeSet<&'static str>,
    /// `Some(k)`: exhaustive mode — the choice sequence is given as explicit indices and the
    /// number of alternatives at each decision is recorded
    choice_log: Vec<(usize, usize)>,
    explicit: Option<Vec<usize>>,
    /// context bound: no further preemption once this many happened
    max_preempt: Option<u32>,
}

pub struct Ctl {
    m: Mutex<CtlState>,
    cv: Condvar,
}

impl Ctl {
    fn choose(st: &mut CtlState, me: Option<usize>) -> Option<usize> {
        // candidates: runnable threads, current thread first (choice 0 = keep running)
        let mut cands: Vec<usize> = vec![];
        if let Some(me) = me {
            if st.status[me] == TSt::Runnable {
                cands.push(me);
            }
        }
        let bounded = !cands.is_empty() && st.max_preempt.map_or(false, |m| st.preemptions >= m);
        if !bounded {
            for (i, s) in st.status.iter().enumerate() {
                if *s == TSt::Runnable && Some(i) != me {
                    cands.push(i);
                }
            }
        }
        if cands.is_empty() {
            return None;
        }
        let idx = if let Some(explicit) = &st.explicit {
            let k = st.choice_log.len();
            let c = explicit.get(k).copied().unwrap_or(0).min(cands.len() - 1);
            st.choice_log.push((c, cands.len()));
            c
        } else {
            let b = if st.pos < st.sched.len() { st.sched[st.pos] } else { 0 };
            st.pos += 1;
            (b as usize * cands.len()) >> 8
        };
        Some(cands[idx])
    }

    /// called by the running thread `me` at a schedule point
    fn yield_point(&self, me: usize, label: &'static str) {
        let mut st = self.m.lock().unwrap();
        if st.deadlock {
            return; // verdict reached: let everything run to its end
        }
        st.points += 1;
        st.labels.insert(label);
        st.clock += 1;
        let next = Self::choose(&mut st, Some(me)).unwrap_or(me);
        if next != me {
            st.preemptions += 1;
            st.token = Some(next);
            self.cv.notify_all();
            while st.token != Some(me) && !st.deadlock {
                st = self.cv.wait(st).unwrap();
            }
        }
    }

    fn wait_for_token(&self, me: usize) {
        let mut st = self.m.lock().unwrap();
        while st.token != Some(me) && !st.deadlock {
            st = self.cv.wait(st).unwrap();
        }
    }

    /// the running thread gives up the token for good (done) or because it is blocked
    fn release(&self, me: usize, new_status: TSt) -> bool {
        let mut st = self.m.lock().unwrap();
        if st.deadlock {
            st.status[me] = TSt::Done;
            return false;
        }
        st.status[me] = new_status;
        st.clock += 1;
        match Self::choose(&mut st, None) {
            Some(next) => {
                st.token = Some(next);
                self.cv.notify_all();
            }
            None => {
                st.token = None;
                if st.status.iter().any(|s| *s == TSt::Blocked) {
                    st.deadlock = true;
                }
                self.cv.notify_all();
            }
        }
        if new_status == TSt::Blocked {
            // wait until woken *and* given the token, or until the deadlock verdict
            loop {
                if st.token == Some(me) {
                    return true;
                }
                if st.deadlock {
                    return false;
                }
                st = self.cv.wait(st).unwrap();
            }
        }
        true
    }

    fn wake(&self, tid: usize) {
        let mut st = self.m.lock().unwrap();
        if st.status[tid] == TSt::Blocked {
            st.status[tid] = TSt::Runnable;
            // nobody is running (everybody else done/blocked): take the token directly
            if st.token.is_none() && !st.deadlock {
                st.token = Some(tid);
            }
            self.cv.notify_all();
        }
    }

    pub fn clock(&self) -> u64 {
        let mut st = self.m.lock().unwrap();
        st.clock += 1;
        st.clock
    }
}

struct Hook {
    ctl: Arc<Ctl>,
    tid: usize,
}
impl PointHook for Hook {
    fn point(&self, label: &'static str) {
        self.ctl.yield_point(self.tid, label);
    }
}

struct TWaker {
    ctl: Arc<Ctl>,
    tid: usize,
    woken: Mutex<bool>,
}
impl Wake for TWaker {
    fn wake(self: Arc<Self>) {
        self.wake_by_ref()
    }
    fn wake_by_ref(self: &Arc<Self>) {
        *self.woken.lock().unwrap() = true;
        self.ctl.wake(self.tid);
    }
}

pub struct ThreadCtx {
    pub ctl: Arc<Ctl>,
    pub tid: usize,
    /// free-running mode: no token, real OS scheduling
    pub free: bool,
}

struct ParkWaker {
    thread: std::thread::Thread,
    woken: std::sync::atomic::AtomicBool,
}
impl Wake for ParkWaker {
    fn wake(self: Arc<Self>) {
        self.wake_by_ref()
    }
    fn wake_by_ref(self: &Arc<Self>) {
        self.woken.store(true, std::sync::atomic::Ordering::SeqCst);
        self.thread.unpark();
    }
}

impl ThreadCtx {
    /// free-running block_on: park until woken; `None` after 3 s without a wake-up
    fn block_on_free<F: Future>(&self, fut: F) -> Option<F::Output> {
        let mut fut = Box::pin(fut);
        let pw = Arc::new(ParkWaker { thread: std::thread::current(), woken: std::sync::atomic::AtomicBool::new(false) });
        let waker = Waker::from(pw.clone());
        let mut cx = Context::from_waker(&waker);
        let deadline = std::time::Instant::now() + std::time::Duration::from_secs(3);
        loop {
            if let Poll::Ready(v) = Pin::as_mut(&mut fut).poll(&mut cx) {
                return Some(v);
            }
            while !pw.woken.swap(false, std::sync::atomic::Ordering::SeqCst) {
                let now = std::time::Instant::now();
                if now >= deadline {
                    return None;
                }
                std::thread::park_timeout(deadline - now);
            }
        }
    }

    /// Minimal block_on for a controlled thread: `Pending` means "blocked until my waker fires".
    /// Returns None if the scheduler declared a deadlock while this thread was blocked.
    pub fn block_on<F: Future>(&self, fut: F) -> Option<F::Output> {
        if self.free {
            return self.block_on_free(fut);
        }
        let mut fut = Box::pin(fut);
        let tw = Arc::new(TWaker { ctl: self.ctl.clone(), tid: self.tid, woken: Mutex::new(false) });
        let waker = Waker::from(tw.clone());
        let mut cx = Context::from_waker(&waker);
        loop {
            *tw.woken.lock().unwrap() = false;
            match Pin::as_mut(&mut fut).poll(&mut cx) {
                Poll::Ready(v) => return Some(v),
                Poll::Pending => {
                    if *tw.woken.lock().unwrap() {
                        // woken during the poll: poll again (after a schedule point)
                        self.ctl.yield_point(self.tid, "block_on:repoll");
                        continue;
                    }
                    // mark blocked and hand the token over; a wake that raced us is handled
                    // because `wake` flips Blocked -> Runnable under the same mutex
                    if !self.ctl.release(self.tid, TSt::Blocked) {
                        return None;
                    }
                }
            }
        }
    }
}

#[derive(Debug, Clone)]
pub struct Rec<R> {
    pub tid: usize,
    pub idx: usize,
    pub start: u64,
    pub end: u64,
    pub res: R,
}

pub struct E2Run<R> {
    pub recs: Vec<Rec<R>>,
    pub deadlock: bool,
    pub preemptions: u32,
    pub points: u32,
    pub labels: Vec<&'static str>,
    pub choice_log: Vec<(usize, usize)>,
}

pub enum Sched {
    Bytes(Vec<u8>),
    /// explicit choice indices + preemption bound
    Explicit(Vec<usize>, Option<u32>),
}

/// Run `programs[tid]` on controlled threads. `exec` performs one op.
pub fn run_threads<S, O, R>(shared: Arc<S>, programs: Vec<Vec<O>>, sched: Sched, exec: fn(&S, &ThreadCtx, usize, &O) -> R) -> E2Run<R>
where
    S: Send + Sync + 'static,
    O: Clone + Send + 'static,
    R: Send + 'static,
{
    let n = programs.len();
    let (bytes, explicit, max_preempt) = match sched {
        Sched::Bytes(b) => (b, None, None),
        Sched::Explicit(e, m) => (vec![], Some(e), m),
    };
    let ctl = Arc::new(Ctl {
        m: Mutex::new(CtlState {
            status: vec![TSt::Runnable; n],
            token: None,
            sched: bytes,
            pos: 0,
            clock: 0,
            preemptions: 0,
            points: 0,
            deadlock: false,
            labels: Default::default(),
            choice_log: vec![],
            explicit,
            max_preempt,
        }),
        cv: Condvar::new(),
    });
    let recs: Arc<Mutex<Vec<Rec<R>>>> = Arc::new(Mutex::new(vec![]));
    let mut handles = vec![];
    for (tid, prog) in programs.into_iter().enumerate() {
        let (ctl, shared, recs) = (ctl.clone(), shared.clone(), recs.clone());
        handles.push(std::thread::spawn(move || {
            ractor::verif::install_point_hook(Some(Arc::new(Hook { ctl: ctl.clone(), tid })));
            ctl.wait_for_token(tid);
            let ctx = ThreadCtx { ctl: ctl.clone(), tid, free: false };
            for (idx, op) in prog.iter().enumerate() {
                let start = ctl.clock();
                let res = exec(&shared, &ctx, tid, op);
                let end = ctl.clock();
                recs.lock().unwrap().push(Rec { tid, idx, start, end, res });
                // a schedule point between two operations of one thread
                ctl.yield_point(tid, "between_ops");
            }
            ractor::verif::install_point_hook(None);
            ctl.release(tid, TSt::Done);
        }));
    }
    // hand out the first token
    {
        let mut st = ctl.m.lock().unwrap();
        let first = Ctl::choose(&mut st, None);
        st.token = first;
        ctl.cv.notify_all();
    }
    for h in handles {
        let _ = h.join();
    }
    let st = ctl.m.lock().unwrap();
    let mut recs = std::mem::take(&mut *recs.lock().unwrap());
    recs.sort_by_key(|r| r.start);
    E2Run {
        recs,
        deadlock: st.deadlock,
        preemptions: st.preemptions,
        points: st.points,
        labels: st.labels.iter().copied().collect(),
        choice_log: st.choice_log.clone(),
    }
}

/// Depth-first enumeration of all schedules of a program (bounded exhaustive generation):
/// calls `run(choices)` repeatedly; `run` must return the choice log of that execution.
pub fn enumerate_schedules(max_runs: usize, mut run: impl FnMut(Vec<usize>) -> Vec<(usize, usize)>) -> (usize, bool) {
    let mut prefix: Vec<usize> = vec![];
    let mut runs = 0;
    loop {
        let log = run(prefix.clone());
        runs += 1;
        if log.is_empty() && !prefix.is_empty() {
            // the visitor asked to stop
            return (runs, false);
        }
        if runs >= max_runs {
            return (runs, false);
        }
        // next: increment the last choice that still has an untried alternative
        let mut next = log.iter().map(|(c, _)| *c).collect::<Vec<_>>();
        let mut i = next.len();
        loop {
            if i == 0 {
                return (runs, true);
            }
            i -= 1;
            if next[i] + 1 < log[i].1 {
                next[i] += 1;
                next.truncate(i + 1);
                break;
            }
        }
        prefix = next;
    }
}

/// Free-running variant: the same programs on uncontrolled OS threads released from a barrier.
/// Operation intervals are stamped with a shared atomic counter, so "A ended before B started"
/// is real-time order and the same oracles apply. `spin[tid]` busy-wait iterations are inserted
/// before each operation to vary the relative timing.
pub fn run_threads_free<S, O, R>(shared: Arc<S>, programs: Vec<Vec<O>>, spin: Vec<u32>, exec: fn(&S, &ThreadCtx, usize, &O) -> R) -> E2Run<R>
where
    S: Send + Sync + 'static,
    O: Clone + Send + 'static,
    R: Send + 'static,
{
    let n = programs.len();
    let ctl = Arc::new(Ctl {
        m: Mutex::new(CtlState {
            status: vec![TSt::Runnable; n],
            token: None,
            sched: vec![],
            pos: 0,
            clock: 0,
            preemptions: 0,
            points: 0,
            deadlock: false,
            labels: Default::default(),
            choice_log: vec![],
            explicit: None,
            max_preempt: None,
        }),
        cv: Condvar::new(),
    });
    let clock = Arc::new(std::sync::atomic::AtomicU64::new(0));
    let barrier = Arc::new(std::sync::Barrier::new(n));
    let recs: Arc<Mutex<Vec<Rec<R>>>> = Arc::new(Mutex::new(vec![]));
    let mut handles = vec![];
    for (tid, prog) in programs.into_iter().enumerate() {
        let (ctl, shared, recs, clock, barrier) = (ctl.clone(), shared.clone(), recs.clone(), clock.clone(), barrier.clone());
        let spins = spin.get(tid).copied().unwrap_or(0);
        handles.push(std::thread::spawn(move || {
            let ctx = ThreadCtx { ctl, tid, free: true };
            let mut local = vec![];
            barrier.wait();
            for (idx, op) in prog.iter().enumerate() {
                for _ in 0..spins {
                    std::hint::spin_loop();
                }
                let start = clock.fetch_add(1, std::sync::atomic::Ordering::SeqCst);
                let res = exec(&shared, &ctx, tid, op);
                let end = clock.fetch_add(1, std::sync::atomic::Ordering::SeqCst);
                local.push(Rec { tid, idx, start, end, res });
            }
            recs.lock().unwrap().extend(local);
        }));
    }
    for h in handles {
        let _ = h.join();
    }
    let mut recs = std::mem::take(&mut *recs.lock().unwrap());
    recs.sort_by_key(|r| r.start);
    E2Run { recs, deadlock: false, preemptions: 1, points: 0, labels: vec![], choice_log: vec![] }
}
