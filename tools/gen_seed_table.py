#!/usr/bin/env python3
"""Rewrites the seeded-change table of DESIGN.md §8.4 from seeded/*/meta.json and seeded/detect.tsv (last row per seed and check wins)."""
import json, os, re
base='/verif/seeded'
det={}
for l in open(base+'/detect.tsv'):
    f=l.rstrip('\n').split('\t')
    if len(f)>=4: det.setdefault(f[0],{})[f[1]]=f[3].strip()
rows=[]
def key(d):
    m=re.match(r'C(\d+)-m(\d+)',d); return (int(m.group(1)),int(m.group(2)))
for d in sorted([x for x in os.listdir(base) if os.path.isdir(base+'/'+x)],key=key):
    t=json.load(open(f'{base}/{d}/meta.json'))['title']
    t=re.sub(r'^C\d+ / m\d+ — ','',t).replace('|','/')[:170]
    r='; '.join(f'{c}: {s}' for c,s in det.get(d,{}).items()).replace('|','/')
    rows.append(f'| {d} | {t} | {r} |')
s=open('/verif/DESIGN.md').read()
head='| seeded change | what it does | quick check → first signatures (or MISSED) |\n|---|---|---|\n'
i=s.index(head)+len(head)
j=i
while s[j]=='|': j=s.index('\n',j)+1
s=s[:i]+'\n'.join(rows)+'\n'+s[j:]
open('/verif/DESIGN.md','w').write(s)
print(len(rows),'rows')
