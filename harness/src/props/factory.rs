//! C13 / C14 / C15 — worker-pool factory (E1, virtual clock, worker-fault injection).
//! One generator and executor, three oracles.

use std::collections::{BTreeMap, BTreeSet, HashMap};
use std::sync::atomic::{AtomicU32, Ordering};
use std::sync::{Arc, Mutex};
use std::time::Duration;

use proptest::prelude::*;
use ractor::factory::queues::{DefaultQueue, PriorityManager, PriorityQueue, Queue, StandardPriority};
use ractor::factory::ratelim::{LeakyBucketRateLimiter, RateLimitedRouter};
use ractor::factory::routing::{CustomHashFunction, CustomRouting, KeyPersistentRouting, QueuerRouting, RoundRobinRouting, Router, StickyQueuerRouting};
use ractor::factory::*;
use ractor::rpc::CallResult;
use ractor::{Actor, ActorProcessingErr, ActorRef};
use serde::{Deserialize, Serialize};

use crate::core::{log, now_ns, run_in_runtime, take_trace, viol, Env, Ev, Violation};
use crate::gate::{drive, yield_once, DriveEnd};
use crate::gen;
use crate::runner::*;

pub type Key = u64;

#[derive(Clone, Copy, Debug, PartialEq, Eq, Serialize, Deserialize)]
pub enum Work {
    Ms(u16),
    Yields(u8),
    Panic,
    Err,
    /// never finishes by itself (dead-man's switch / kill territory)
    Hang,
}

pub struct JobMsg {
    pub id: u32,
    pub work: Work,
}
impl ractor::Message for JobMsg {}

#[derive(Clone, Copy, Debug, PartialEq, Eq, Serialize, Deserialize)]
pub enum Routing {
    KeyPersistent,
    Queuer,
    Sticky,
    RoundRobin,
    Custom,
}

#[derive(Clone, Debug, PartialEq, Eq, Serialize, Deserialize)]
pub enum FOp {
    Dispatch { key: u8, ttl_ms: Option<u16>, port: bool, work: Work },
    Sleep(u16),
    Yield,
    Adjust(u8),
    SetWorkerCount(u8),
    SetDiscard { limit: u8, newest: bool },
    KillWorker(u8),
}

#[derive(Clone, Copy, Debug, PartialEq, Eq, Serialize, Deserialize)]
pub enum Ending {
    /// wait for quiescence, then DrainRequests
    Drain,
    /// DrainRequests right after the last operation (jobs still in flight)
    DrainEarly,
    /// wait for quiescence, then stop
    StopQuiet,
    /// stop with a backlog
    StopAbrupt,
}

#[derive(Clone, Debug, Serialize, Deserialize)]
pub struct FCase {
    pub routing: Routing,
    pub priority_queue: bool,
    pub workers: u8,
    pub discard: Option<(u8, bool)>,
    /// (refill, interval ms, max, initial)
    pub ratelimit: Option<(u8, u16, u8, u8)>,
    pub dead_mans_ms: Option<u16>,
    pub hash_table: Vec<u64>,
    /// false: the factory starts without a discard handler; it is installed through
    /// UpdateSettings before the first job is dispatched
    #[serde(default = "yes")]
    pub initial_handler: bool,
    pub dispatcher: Vec<FOp>,
    pub controller: Vec<FOp>,
    pub ending: Ending,
    pub schedule: Vec<u8>,
    /// dynamic discard settings: (initial limit, newest?, the limits the controller answers at its successive calls;
    /// the last one is repeated)
    #[serde(default)]
    pub dynamic: Option<(u8, bool, Vec<u8>)>,
}

fn yes() -> bool {
    true
}

// ---- observation -----------------------------------------------------------------------

#[derive(Clone, Debug, PartialEq)]
pub enum FEv {
    /// job `id` is about to be sent (cast, or call whose send happens at its first poll, i.e. right now)
    DispatchSent { id: u32 },
    /// the dispatch call of job `id` returned: sent = the cast / call reached the factory's mailbox
    Dispatched { id: u32, key: u64, sent: bool, discardable: bool },
    /// acceptance port answer: accepted (None) or handed back (Some)
    PortAnswer { id: u32, accepted: bool },
    PortDead { id: u32 },
    Build { wid: usize, inc: u32, pid: u64 },
    WorkerStarted { wid: usize, inc: u32 },
    Start { wid: usize, inc: u32, key: u64, id: u32 },
    End { wid: usize, inc: u32, key: u64, id: u32 },
    Discard { reason: String, id: u32 },
    Hook(&'static str),
    KillIssued { wid: usize, inc: u32 },
    Resize { to: usize },
    SetDiscard { limit: usize, newest: bool },
    DrainRequested,
    /// the dynamic discard controller was asked (at a factory ping round) and answered `limit`
    DynLimit { limit: usize },
    StopIssued,
    /// queue depth as answered by the GetQueueDepth RPC sent right after dispatch `after`
    Depth { after: u32, depth: usize },
    FactoryDone,
    Quiet { depth: usize, active: usize },
    /// at quiescence: live worker children of the factory
    PoolObserved { children: usize, alive: Vec<(usize, u32)> },
}

pub struct Shared {
    pub log: Mutex<Vec<(u64, FEv)>>,
    pub current: Mutex<HashMap<usize, (u32, ActorRef<WorkerMessage<Key, JobMsg>>)>>,
    pub incs: Mutex<HashMap<usize, u32>>,
    pub builds: AtomicU32,
}

impl Shared {
    fn ev(&self, e: FEv) {
        log(Ev::Note(format!("{e:?}")));
        self.log.lock().unwrap().push((now_ns(), e));
    }
}

// ---- worker ----------------------------------------------------------------------------

pub struct TestWorker {
    sh: Arc<Shared>,
    wid: usize,
    inc: u32,
}

pub struct WState {
    factory: ActorRef<FactoryMessage<Key, JobMsg>>,
}

#[cfg_attr(feature = "async-trait", ractor::async_trait)]
impl Actor for TestWorker {
    type Msg = WorkerMessage<Key, JobMsg>;
    type State = WState;
    type Arguments = WorkerStartContext<Key, JobMsg, ()>;

    async fn pre_start(&self, myself: ActorRef<Self::Msg>, ctx: Self::Arguments) -> Result<WState, ActorProcessingErr> {
        self.sh.ev(FEv::Build { wid: self.wid, inc: self.inc, pid: myself.get_id().pid() });
        self.sh.current.lock().unwrap().insert(self.wid, (self.inc, myself.clone()));
        Ok(WState { factory: ctx.factory })
    }

    async fn post_start(&self, _myself: ActorRef<Self::Msg>, _st: &mut WState) -> Result<(), ActorProcessingErr> {
        self.sh.ev(FEv::WorkerStarted { wid: self.wid, inc: self.inc });
        Ok(())
    }

    async fn handle(&self, _myself: ActorRef<Self::Msg>, msg: Self::Msg, st: &mut WState) -> Result<(), ActorProcessingErr> {
        match msg {
            WorkerMessage::FactoryPing(time) => {
                st.factory.cast(FactoryMessage::WorkerPong(self.wid, time.elapsed()))?;
            }
            WorkerMessage::Dispatch(job) => {
                let (key, id, work) = (job.key, job.msg.id, job.msg.work);
                self.sh.ev(FEv::Start { wid: self.wid, inc: self.inc, key, id });
                match work {
                    Work::Ms(ms) => tokio::time::sleep(Duration::from_millis(ms as u64)).await,
                    Work::Yields(n) => {
                        for _ in 0..n {
                            yield_once().await;
                        }
                    }
                    Work::Panic => panic!("boom worker {} job {}", self.wid, id),
                    Work::Err => return Err(format!("fail worker {} job {}", self.wid, id).into()),
                    Work::Hang => crate::core::Pending.await,
                }
                self.sh.ev(FEv::End { wid: self.wid, inc: self.inc, key, id });
                st.factory.cast(FactoryMessage::Finished(self.wid, key))?;
            }
        }
        Ok(())
    }
}

struct Builder(Arc<Shared>);
impl WorkerBuilder<TestWorker, ()> for Builder {
    fn build(&mut self, wid: usize) -> (TestWorker, ()) {
        let inc = {
            let mut g = self.0.incs.lock().unwrap();
            let e = g.entry(wid).or_insert(0);
            *e += 1;
            *e
        };
        self.0.builds.fetch_add(1, Ordering::Relaxed);
        (TestWorker { sh: self.0.clone(), wid, inc }, ())
    }
}

struct Disc(Arc<Shared>);
impl DiscardHandler<Key, JobMsg> for Disc {
    fn discard(&self, reason: DiscardReason, job: &mut Job<Key, JobMsg>) {
        self.0.ev(FEv::Discard { reason: format!("{reason:?}"), id: job.msg.id });
    }
}

struct Hooks(Arc<Shared>);
#[cfg_attr(feature = "async-trait", ractor::async_trait)]
impl FactoryLifecycleHooks<Key, JobMsg> for Hooks {
    #[cfg(not(feature = "async-trait"))]
    fn on_factory_started(&self, _f: ActorRef<FactoryMessage<Key, JobMsg>>) -> futures::future::BoxFuture<'_, Result<(), ActorProcessingErr>> {
        self.0.ev(FEv::Hook("started"));
        Box::pin(async { Ok(()) })
    }
    #[cfg(not(feature = "async-trait"))]
    fn on_factory_stopped(&self) -> futures::future::BoxFuture<'_, Result<(), ActorProcessingErr>> {
        self.0.ev(FEv::Hook("stopped"));
        Box::pin(async { Ok(()) })
    }
    #[cfg(not(feature = "async-trait"))]
    fn on_factory_draining(&self, _f: ActorRef<FactoryMessage<Key, JobMsg>>) -> futures::future::BoxFuture<'_, Result<(), ActorProcessingErr>> {
        self.0.ev(FEv::Hook("draining"));
        Box::pin(async { Ok(()) })
    }
    #[cfg(feature = "async-trait")]
    async fn on_factory_started(&self, _f: ActorRef<FactoryMessage<Key, JobMsg>>) -> Result<(), ActorProcessingErr> {
        self.0.ev(FEv::Hook("started"));
        Ok(())
    }
    #[cfg(feature = "async-trait")]
    async fn on_factory_stopped(&self) -> Result<(), ActorProcessingErr> {
        self.0.ev(FEv::Hook("stopped"));
        Ok(())
    }
    #[cfg(feature = "async-trait")]
    async fn on_factory_draining(&self, _f: ActorRef<FactoryMessage<Key, JobMsg>>) -> Result<(), ActorProcessingErr> {
        self.0.ev(FEv::Hook("draining"));
        Ok(())
    }
}

struct TableHash(Vec<u64>);
impl CustomHashFunction<Key> for TableHash {
    fn hash(&self, key: &Key, _n: usize) -> usize {
        if self.0.is_empty() {
            0
        } else {
            self.0[*key as usize % self.0.len()] as usize
        }
    }
}

/// keys 0,1 are high priority and not discardable; 2,3 best effort and discardable
struct Prio;
impl PriorityManager<Key, StandardPriority> for Prio {
    fn is_discardable(&self, key: &Key) -> bool {
        *key >= 2
    }
    fn get_priority(&self, key: &Key) -> Option<StandardPriority> {
        Some(if *key < 2 { StandardPriority::High } else { StandardPriority::BestEffort })
    }
}

pub fn discardable(case: &FCase, key: u64) -> bool {
    if case.priority_queue {
        key >= 2
    } else {
        true
    }
}

// ---- execution -------------------------------------------------------------------------

pub struct Run {
    pub events: Vec<(u64, FEv)>,
    pub trace: Vec<String>,
    pub ends: Vec<DriveEnd>,
    pub spawn_err: Option<String>,
    pub factory_join: Option<String>,
    pub live_worker_children: usize,
}

struct DynCtl {
    sh: Arc<Shared>,
    answers: Vec<u8>,
    k: usize,
}
impl DynCtl {
    fn next(&mut self) -> usize {
        let l = self.answers.get(self.k).or(self.answers.last()).copied().unwrap_or(0) as usize;
        self.k += 1;
        self.sh.ev(FEv::DynLimit { limit: l });
        l
    }
}
#[cfg(feature = "async-trait")]
#[ractor::async_trait]
impl ractor::factory::DynamicDiscardController for DynCtl {
    async fn compute(&mut self, _current: usize) -> usize {
        self.next()
    }
}
#[cfg(not(feature = "async-trait"))]
impl ractor::factory::DynamicDiscardController for DynCtl {
    fn compute(&mut self, _current: usize) -> futures::future::BoxFuture<'_, usize> {
        let l = self.next();
        Box::pin(async move { l })
    }
}

async fn run_factory<R, Q>(case: FCase, mut env: Env, router: R, queue: Q) -> Run
where
    R: Router<Key, JobMsg>,
    Q: Queue<Key, JobMsg>,
{
    let sh = Arc::new(Shared { log: Mutex::new(vec![]), current: Mutex::new(HashMap::new()), incs: Mutex::new(HashMap::new()), builds: AtomicU32::new(0) });
    let discard_settings = match case.discard {
        None if case.dynamic.is_some() => {
            let (limit, newest, answers) = case.dynamic.clone().unwrap();
            DiscardSettings::Dynamic { limit: limit as usize, mode: if newest { DiscardMode::Newest } else { DiscardMode::Oldest }, updater: Box::new(DynCtl { sh: sh.clone(), answers, k: 0 }) }
        }
        None => DiscardSettings::None,
        Some((limit, newest)) => DiscardSettings::Static { limit: limit as usize, mode: if newest { DiscardMode::Newest } else { DiscardMode::Oldest } },
    };
    let args = FactoryArguments::builder()
        .worker_builder(Box::new(Builder(sh.clone())))
        .num_initial_workers(case.workers as usize)
        .router(router)
        .queue(queue)
        .maybe_discard_handler(if case.initial_handler { Some(Arc::new(Disc(sh.clone())) as Arc<dyn DiscardHandler<Key, JobMsg>>) } else { None })
        .discard_settings(discard_settings)
        .lifecycle_hooks(Box::new(Hooks(sh.clone())))
        .maybe_dead_mans_switch(case.dead_mans_ms.map(|ms| DeadMansSwitchConfiguration::builder().detection_timeout(Duration::from_millis(ms as u64)).kill_worker(true).build()))
        .build();
    let factory_def = Factory::<Key, JobMsg, (), TestWorker, R, Q>::default();

    // spawning the factory needs the gate to run (workers are spawned inside pre_start)
    let spawn_task = ractor::concurrency::spawn(async move { Actor::spawn(None, factory_def, args).await });
    let mut ends = vec![];
    ends.push(drive(&env.gate, &mut env.sched, 3_000, || spawn_task.is_finished(), |_, _| {}).await);
    let (factory, fhandle) = match spawn_task.await {
        Ok(Ok(x)) => x,
        Ok(Err(e)) => {
            return Run { events: sh.log.lock().unwrap().clone(), trace: vec![], ends, spawn_err: Some(format!("{e}")), factory_join: None, live_worker_children: 0 };
        }
        Err(e) => {
            return Run { events: sh.log.lock().unwrap().clone(), trace: vec![], ends, spawn_err: Some(format!("join {e}")), factory_join: None, live_worker_children: 0 };
        }
    };

    if !case.initial_handler {
        let (f2, sh2) = (factory.clone(), sh.clone());
        let t = ractor::concurrency::spawn(async move {
            let h: Arc<dyn DiscardHandler<Key, JobMsg>> = Arc::new(Disc(sh2));
            let _ = f2.cast(FactoryMessage::UpdateSettings(UpdateSettingsRequest::builder().discard_handler(Some(h)).build()));
            let _ = f2.call(FactoryMessage::GetQueueDepth, None).await;
        });
        ends.push(drive(&env.gate, &mut env.sched, 3_000, || t.is_finished(), |_, _| {}).await);
    }

    // clients
    let next_id = Arc::new(AtomicU32::new(0));
    let mk_client = |ops: Vec<FOp>, is_dispatcher: bool| {
        let (sh, factory, next_id, case) = (sh.clone(), factory.clone(), next_id.clone(), case.clone());
        async move {
            for op in ops {
                match op {
                    FOp::Dispatch { key, ttl_ms, port, work } => {
                        let id = next_id.fetch_add(1, Ordering::Relaxed);
                        let key = key as u64;
                        let options = JobOptions::new(ttl_ms.map(|t| Duration::from_millis(t as u64)));
                        let disc = discardable(&case, key);
                        sh.ev(FEv::DispatchSent { id });
                        if port {
                            let r = factory
                                .call(|reply| FactoryMessage::Dispatch(Job { key, msg: JobMsg { id, work }, options, accepted: Some(reply) }), None)
                                .await;
                            match r {
                                Ok(CallResult::Success(None)) => {
                                    sh.ev(FEv::Dispatched { id, key, sent: true, discardable: disc });
                                    sh.ev(FEv::PortAnswer { id, accepted: true });
                                }
                                Ok(CallResult::Success(Some(_job))) => {
                                    sh.ev(FEv::Dispatched { id, key, sent: true, discardable: disc });
                                    sh.ev(FEv::PortAnswer { id, accepted: false });
                                }
                                Ok(_) => {
                                    sh.ev(FEv::Dispatched { id, key, sent: true, discardable: disc });
                                    sh.ev(FEv::PortDead { id });
                                }
                                Err(_) => sh.ev(FEv::Dispatched { id, key, sent: false, discardable: disc }),
                            }
                        } else {
                            let r = factory.cast(FactoryMessage::Dispatch(Job { key, msg: JobMsg { id, work }, options, accepted: None }));
                            sh.ev(FEv::Dispatched { id, key, sent: r.is_ok(), discardable: disc });
                        }
                        if is_dispatcher {
                            // FIFO behind the dispatch: the depth after the factory processed it
                            if let Ok(CallResult::Success(d)) = factory.call(FactoryMessage::GetQueueDepth, None).await {
                                sh.ev(FEv::Depth { after: id, depth: d });
                            }
                        }
                    }
                    FOp::Sleep(ms) => tokio::time::sleep(Duration::from_millis(ms as u64)).await,
                    FOp::Yield => yield_once().await,
                    FOp::Adjust(n) => {
                        let _ = factory.cast(FactoryMessage::AdjustWorkerPool(n as usize));
                        sh.ev(FEv::Resize { to: n as usize });
                    }
                    FOp::SetWorkerCount(n) => {
                        let _ = factory.cast(FactoryMessage::UpdateSettings(UpdateSettingsRequest::builder().worker_count(n as usize).build()));
                        sh.ev(FEv::Resize { to: n as usize });
                    }
                    FOp::SetDiscard { limit, newest } => {
                        let s = DiscardSettings::Static { limit: limit as usize, mode: if newest { DiscardMode::Newest } else { DiscardMode::Oldest } };
                        let _ = factory.cast(FactoryMessage::UpdateSettings(UpdateSettingsRequest::builder().discard_settings(s).build()));
                        sh.ev(FEv::SetDiscard { limit: limit as usize, newest });
                    }
                    FOp::KillWorker(w) => {
                        let cur = sh.current.lock().unwrap().get(&(w as usize)).cloned();
                        if let Some((inc, cell)) = cur {
                            cell.kill();
                            sh.ev(FEv::KillIssued { wid: w as usize, inc });
                        }
                    }
                }
                yield_once().await;
            }
        }
    };
    let h1 = ractor::concurrency::spawn(mk_client(case.dispatcher.clone(), true));
    let h2 = ractor::concurrency::spawn(mk_client(case.controller.clone(), false));
    ends.push(drive(&env.gate, &mut env.sched, 20_000, || h1.is_finished() && h2.is_finished(), |_, _| {}).await);

    // ending
    let quiet = |env: Env| async move { env };
    let _ = quiet;
    let wait_quiet = matches!(case.ending, Ending::Drain | Ending::StopQuiet);
    if wait_quiet && ends.iter().all(|e| *e == DriveEnd::Done) {
        // poll the factory until nothing is queued and nobody works (bounded virtual time)
        for _ in 0..60 {
            let (f2, sh2) = (factory.clone(), sh.clone());
            let probe = ractor::concurrency::spawn(async move {
                tokio::time::sleep(Duration::from_millis(25)).await;
                let d = f2.call(FactoryMessage::GetQueueDepth, None).await;
                let a = f2.call(FactoryMessage::GetNumActiveWorkers, None).await;
                match (d, a) {
                    (Ok(CallResult::Success(d)), Ok(CallResult::Success(a))) => {
                        sh2.ev(FEv::Quiet { depth: d, active: a });
                        d == 0 && a == 0
                    }
                    _ => true,
                }
            });
            let e = drive(&env.gate, &mut env.sched, 4_000, || probe.is_finished(), |_, _| {}).await;
            if e != DriveEnd::Done {
                ends.push(e);
                break;
            }
            if probe.await.unwrap_or(true) {
                // workers that were just told to stop need a moment to actually exit
                let idle = ractor::concurrency::spawn(async { tokio::time::sleep(Duration::from_millis(20)).await });
                let _ = drive(&env.gate, &mut env.sched, 4_000, || idle.is_finished(), |_, _| {}).await;
                let mut alive: Vec<(usize, u32)> = sh.current.lock().unwrap().iter().filter(|(_, (_, c))| c.get_status() < ractor::ActorStatus::Stopping).map(|(w, (i, _))| (*w, *i)).collect();
                alive.sort();
                sh.ev(FEv::PoolObserved { children: factory.get_children().iter().filter(|c| c.get_status() < ractor::ActorStatus::Stopping).count(), alive });
                break;
            }
        }
    }
    // a pool that never had a worker cannot make progress: give it one before the ending
    // (out of the property's domain otherwise: nothing could ever finish)
    let ever_sized = case.workers > 0 || case.controller.iter().any(|o| matches!(o, FOp::Adjust(n) | FOp::SetWorkerCount(n) if *n > 0));
    if !ever_sized {
        let _ = factory.cast(FactoryMessage::AdjustWorkerPool(1));
        sh.ev(FEv::Resize { to: 1 });
    }
    match case.ending {
        Ending::Drain | Ending::DrainEarly => {
            let _ = factory.cast(FactoryMessage::DrainRequests);
            sh.ev(FEv::DrainRequested);
            // jobs submitted after the drain request must be refused
            for k in 0..2u32 {
                let id = 9000 + k;
                let (f2, sh2, case2) = (factory.clone(), sh.clone(), case.clone());
                ractor::concurrency::spawn(async move {
                    let r = f2.call(|reply| FactoryMessage::Dispatch(Job { key: k as u64, msg: JobMsg { id, work: Work::Yields(0) }, options: JobOptions::default(), accepted: Some(reply) }), None).await;
                    let disc = discardable(&case2, k as u64);
                    match r {
                        Ok(CallResult::Success(None)) => {
                            sh2.ev(FEv::Dispatched { id, key: k as u64, sent: true, discardable: disc });
                            sh2.ev(FEv::PortAnswer { id, accepted: true });
                        }
                        Ok(CallResult::Success(Some(_))) => {
                            sh2.ev(FEv::Dispatched { id, key: k as u64, sent: true, discardable: disc });
                            sh2.ev(FEv::PortAnswer { id, accepted: false });
                        }
                        Ok(_) => {
                            sh2.ev(FEv::Dispatched { id, key: k as u64, sent: true, discardable: disc });
                            sh2.ev(FEv::PortDead { id });
                        }
                        Err(_) => sh2.ev(FEv::Dispatched { id, key: k as u64, sent: false, discardable: disc }),
                    }
                });
            }
        }
        Ending::StopQuiet | Ending::StopAbrupt => {
            factory.stop(None);
            sh.ev(FEv::StopIssued);
        }
    }
    // hanging jobs would keep a draining factory alive forever: the dead-man's switch (if any) or
    // a late kill of every worker still running resolves them
    let (sh3, f3) = (sh.clone(), factory.clone());
    let reaper = ractor::concurrency::spawn(async move {
        for _ in 0..40 {
            tokio::time::sleep(Duration::from_millis(100)).await;
            if f3.get_status() == ractor::ActorStatus::Stopped {
                return;
            }
            let cur: Vec<_> = sh3.current.lock().unwrap().iter().map(|(w, (i, c))| (*w, *i, c.clone())).collect();
            for (w, i, c) in cur {
                if c.get_status() < ractor::ActorStatus::Stopping {
                    let has_hang = true;
                    if has_hang {
                        c.kill();
                        sh3.ev(FEv::KillIssued { wid: w, inc: i });
                    }
                }
            }
        }
    });
    let fcell = factory.get_cell();
    // after the ending was requested every hanging worker is killed within 4 s of virtual time and no
    // job takes longer than 15 ms: a factory that has not finished 10 virtual seconds later never will
    let t_end = tokio::time::Instant::now();
    ends.push(drive(&env.gate, &mut env.sched, 30_000, || fhandle.is_finished() || t_end.elapsed() > Duration::from_secs(10), |_, _| {}).await);
    reaper.abort();
    let live_worker_children = fcell.get_children().len();
    let factory_join = if fhandle.is_finished() {
        match fhandle.await {
            Ok(()) => {
                sh.ev(FEv::FactoryDone);
                Some("ok".to_string())
            }
            Err(e) => Some(format!("{e}")),
        }
    } else {
        None
    };
    // final sweep
    factory.kill();
    let cur: Vec<_> = sh.current.lock().unwrap().values().map(|(_, c)| c.clone()).collect();
    for c in cur {
        c.kill();
    }
    let gate = env.gate.clone();
    env.sched.steps_left = env.sched.steps_left.max(10_000);
    let _ = drive(&env.gate, &mut env.sched, 10_000, || gate.live().is_empty(), |_, _| {}).await;
    let events = sh.log.lock().unwrap().clone();
    Run { events, trace: crate::core::fmt_trace(&take_trace()), ends, spawn_err: None, factory_join, live_worker_children }
}

pub fn execute(case: &FCase) -> Run {
    let case = case.clone();
    run_in_runtime(&case.schedule.clone(), |mut env| async move {
        env.sched.steps_left = 40_000;
        let rl = case.ratelimit;
        let mk_rl = move || {
            let (refill, interval, max, initial) = rl.unwrap();
            LeakyBucketRateLimiter::builder().refill(refill as usize).interval(Duration::from_millis(interval as u64)).max(max as usize).initial(initial as usize).build()
        };
        macro_rules! go {
            ($router:expr) => {{
                if case.priority_queue {
                    let q = PriorityQueue::<Key, JobMsg, StandardPriority, Prio, { StandardPriority::size() }>::new(Prio);
                    if rl.is_some() {
                        run_factory(case.clone(), env, RateLimitedRouter { router: $router, rate_limiter: mk_rl() }, q).await
                    } else {
                        run_factory(case.clone(), env, $router, q).await
                    }
                } else {
                    let q = DefaultQueue::<Key, JobMsg>::default();
                    if rl.is_some() {
                        run_factory(case.clone(), env, RateLimitedRouter { router: $router, rate_limiter: mk_rl() }, q).await
                    } else {
                        run_factory(case.clone(), env, $router, q).await
                    }
                }
            }};
        }
        match case.routing {
            Routing::KeyPersistent => go!(KeyPersistentRouting::<Key, JobMsg>::default()),
            Routing::Queuer => go!(QueuerRouting::<Key, JobMsg>::default()),
            Routing::Sticky => go!(StickyQueuerRouting::<Key, JobMsg>::default()),
            Routing::RoundRobin => go!(RoundRobinRouting::<Key, JobMsg>::default()),
            Routing::Custom => go!(CustomRouting::<Key, JobMsg, TableHash>::new(TableHash(case.hash_table.clone()))),
        }
    })
}

// ---- generator -------------------------------------------------------------------------

#[derive(Clone, Copy, PartialEq, Eq, Debug)]
pub enum Flavor {
    Fate,
    Routing,
    Capacity,
}

pub fn strategy(tier: Tier, flavor: Flavor) -> BoxedStrategy<FCase> {
    let max_ops = if tier == Tier::Quick { 12 } else { 24 };
    let routing = prop_oneof![Just(Routing::KeyPersistent), Just(Routing::Queuer), Just(Routing::Sticky), Just(Routing::RoundRobin), Just(Routing::Custom)];
    let work = match flavor {
        Flavor::Fate => prop_oneof![6 => (0u16..12).prop_map(Work::Ms), 3 => (0u8..4).prop_map(Work::Yields), 1 => Just(Work::Panic), 1 => Just(Work::Err), 1 => Just(Work::Hang)].boxed(),
        Flavor::Routing => prop_oneof![6 => (0u16..12).prop_map(Work::Ms), 3 => (0u8..4).prop_map(Work::Yields), 1 => Just(Work::Panic), 1 => Just(Work::Err)].boxed(),
        Flavor::Capacity => prop_oneof![6 => (1u16..15).prop_map(Work::Ms), 2 => (0u8..4).prop_map(Work::Yields), 1 => Just(Work::Panic)].boxed(),
    };
    let nkeys: u8 = if flavor == Flavor::Routing { 2 } else { 4 };
    // routing flavour: mostly two keys (long same-key streams), now and then a third / fourth key so
    // that a key can be waiting in the backlog while no worker is on it
    let key = if flavor == Flavor::Routing { prop_oneof![7 => gen::idx(nkeys), 3 => gen::idx(4)].boxed() } else { gen::idx(nkeys).boxed() };
    let dispatch = (key, prop_oneof![5 => Just(None), 1 => (0u16..20).prop_map(Some)], prop::bool::weighted(0.25), work).prop_map(|(key, ttl_ms, port, work)| FOp::Dispatch { key, ttl_ms, port, work });
    let dop = prop_oneof![10 => dispatch, 2 => (0u16..10).prop_map(FOp::Sleep), 1 => Just(FOp::Yield)];
    let cop = prop_oneof![
        3 => (0u16..15).prop_map(FOp::Sleep),
        2 => Just(FOp::Yield),
        2 => (0u8..5).prop_map(FOp::Adjust),
        1 => (0u8..5).prop_map(FOp::SetWorkerCount),
        1 => (0u8..4, any::<bool>()).prop_map(|(limit, newest)| FOp::SetDiscard { limit, newest }),
        3 => gen::idx(4).prop_map(FOp::KillWorker),
    ];
    let cop_cap = prop_oneof![
        3 => (0u16..15).prop_map(FOp::Sleep),
        2 => Just(FOp::Yield),
        4 => (0u8..5).prop_map(FOp::Adjust),
        2 => (0u8..5).prop_map(FOp::SetWorkerCount),
        2 => gen::idx(4).prop_map(FOp::KillWorker),
        3 => (0u8..4, prop::bool::weighted(0.3)).prop_map(|(limit, newest)| FOp::SetDiscard { limit, newest }),
    ];
    let controller = if flavor == Flavor::Capacity { proptest::collection::vec(cop_cap, 0..=8).boxed() } else { proptest::collection::vec(cop, 0..=8).boxed() };
    let ending = match flavor {
        Flavor::Fate => prop_oneof![3 => Just(Ending::Drain), 2 => Just(Ending::DrainEarly), 2 => Just(Ending::StopQuiet), 2 => Just(Ending::StopAbrupt)].boxed(),
        Flavor::Routing => prop_oneof![Just(Ending::Drain), Just(Ending::StopQuiet)].boxed(),
        Flavor::Capacity => prop_oneof![2 => Just(Ending::Drain), 2 => Just(Ending::DrainEarly), 1 => Just(Ending::StopQuiet)].boxed(),
    };
    (
        (routing, prop::bool::weighted(0.3), prop_oneof![1 => Just(0u8), 12 => 1u8..=4]),
        (prop_oneof![2 => Just(None), 2 => (0u8..4, any::<bool>()).prop_map(Some)], prop_oneof![4 => Just(None), 1 => (0u8..3, 0u16..30, 0u8..4, 0u8..4).prop_map(Some)], prop_oneof![5 => Just(None), 1 => (20u16..60).prop_map(Some)]),
        proptest::collection::vec(prop_oneof![Just(0u64), Just(1), Just(2), Just(3), Just(4), Just(7), Just(u64::MAX), Just(u64::MAX - 1)], 1..=4),
        proptest::collection::vec(dop, 1..=max_ops),
        controller,
        ending,
        gen::schedule(160),
    )
        .prop_map(move |((routing, pq, workers), (discard, ratelimit, dead_mans_ms), hash_table, dispatcher, controller, ending, schedule)| {
            let initial_handler = schedule.first().map_or(true, |b| b % 4 != 0);
            let factory_queueing = matches!(routing, Routing::Queuer | Routing::Sticky);
            FCase {
                routing,
                priority_queue: pq && factory_queueing,
                workers,
                discard,
                ratelimit: if flavor == Flavor::Routing { None } else { ratelimit },
                dead_mans_ms,
                hash_table,
                initial_handler,
                dispatcher,
                controller,
                ending,
                schedule,
                dynamic: None,
            }
        })
        .boxed()
}

/// Capacity family with `DiscardSettings::Dynamic`: 2-3 phases of dispatches to busy workers, separated by
/// pauses longer than the factory's ping period (10 s of virtual time), at which the controller answers the
/// next generated limit
pub fn dynamic_strategy(_tier: Tier) -> BoxedStrategy<FCase> {
    let routing = prop_oneof![Just(Routing::KeyPersistent), Just(Routing::Queuer), Just(Routing::Sticky), Just(Routing::RoundRobin), Just(Routing::Custom)];
    let dispatch = (gen::idx(2), (4u16..15).prop_map(Work::Ms)).prop_map(|(key, work)| FOp::Dispatch { key, ttl_ms: None, port: false, work });
    let phase = proptest::collection::vec(dispatch, 3..=8);
    (
        routing,
        1u8..=2,
        (0u8..6, any::<bool>(), proptest::collection::vec(prop_oneof![3 => Just(0u8), 2 => 1u8..3, 1 => 3u8..6], 1..=2)),
        proptest::collection::vec(phase, 2..=3),
        proptest::collection::vec(prop_oneof![Just(0u64), Just(1), Just(2), Just(3)], 1..=3),
        gen::schedule(120),
    )
        .prop_map(|(routing, workers, (initial, newest, answers), phases, hash_table, schedule)| {
            let mut dispatcher = vec![];
            for (k, ph) in phases.into_iter().enumerate() {
                if k > 0 {
                    dispatcher.push(FOp::Sleep(10_100));
                }
                dispatcher.extend(ph);
            }
            FCase { routing, priority_queue: false, workers, discard: None, ratelimit: None, dead_mans_ms: None, hash_table, initial_handler: true, dispatcher, controller: vec![], ending: Ending::Drain, schedule, dynamic: Some((initial, newest, answers)) }
        })
        .boxed()
}

// ---- derived facts ---------------------------------------------------------------------

#[derive(Default, Debug, Clone)]
pub struct JobFacts {
    pub key: u64,
    pub sent: bool,
    pub discardable: bool,
    pub starts: Vec<(usize, usize, u32)>, // (event index, wid, inc)
    pub ends: Vec<usize>,
    pub discards: Vec<(usize, String)>,
    pub port: Option<bool>,
    pub port_dead: bool,
    pub dispatched_at: usize,
}

pub fn facts(run: &Run) -> BTreeMap<u32, JobFacts> {
    let mut m: BTreeMap<u32, JobFacts> = BTreeMap::new();
    for (i, (_, e)) in run.events.iter().enumerate() {
        match e {
            FEv::Dispatched { id, key, sent, discardable } => {
                let f = m.entry(*id).or_default();
                f.key = *key;
                f.sent = *sent;
                f.discardable = *discardable;
                f.dispatched_at = i;
            }
            FEv::Start { wid, inc, id, key } => {
                let f = m.entry(*id).or_default();
                f.key = *key;
                f.starts.push((i, *wid, *inc));
            }
            FEv::End { id, .. } => m.entry(*id).or_default().ends.push(i),
            FEv::Discard { reason, id } => m.entry(*id).or_default().discards.push((i, reason.clone())),
            FEv::PortAnswer { id, accepted } => m.entry(*id).or_default().port = Some(*accepted),
            FEv::PortDead { id } => m.entry(*id).or_default().port_dead = true,
            _ => {}
        }
    }
    m
}

/// worker deaths: an incarnation that was built and later replaced / killed / failed
pub fn deaths(run: &Run) -> BTreeSet<(usize, u32)> {
    let mut built: BTreeMap<usize, Vec<u32>> = BTreeMap::new();
    let mut dead = BTreeSet::new();
    for (_, e) in &run.events {
        match e {
            FEv::Build { wid, inc, .. } => {
                let v = built.entry(*wid).or_default();
                if let Some(prev) = v.last() {
                    dead.insert((*wid, *prev));
                }
                v.push(*inc);
            }
            FEv::KillIssued { wid, inc } => {
                dead.insert((*wid, *inc));
            }
            _ => {}
        }
    }
    // a job that panicked / returned Err killed its incarnation
    for (_, e) in &run.events {
        if let FEv::Start { wid, inc, id, .. } = e {
            let ended = run.events.iter().any(|(_, x)| matches!(x, FEv::End { id: i2, .. } if i2 == id));
            if !ended {
                dead.insert((*wid, *inc));
            }
        }
    }
    dead
}

fn outcome(verdict: Result<(bool, Vec<String>), Violation>, run: &Run, want_trace: bool) -> Outcome {
    let trace = if want_trace { run.trace.clone() } else { vec![] };
    match verdict {
        Err(v) => Outcome { verdict: Verdict::Fail(v), nontrivial: false, labels: vec![], trace },
        Ok((nt, labels)) => {
            if run.ends.iter().any(|e| *e == DriveEnd::Budget) {
                return Outcome { verdict: Verdict::Inconclusive("step budget".into()), nontrivial: false, labels, trace };
            }
            Outcome { verdict: Verdict::Pass, nontrivial: nt, labels, trace }
        }
    }
}

// ---- C13: every job meets exactly one fate ---------------------------------------------

pub fn check_c13(case: &FCase, run: &Run) -> Result<(bool, Vec<String>), Violation> {
    let mut labels = vec![format!("{:?}", case.routing), format!("{:?}", case.ending)];
    if let Some(e) = &run.spawn_err {
        return Err(viol("C13/factory-spawn-failed", e.clone()));
    }
    let facts = facts(run);
    let dead = deaths(run);
    let complete = run.ends.iter().all(|e| *e == DriveEnd::Done) && run.factory_join.as_deref() == Some("ok");
    if run.factory_join.is_some() && run.factory_join.as_deref() != Some("ok") {
        return Err(viol("C13/factory-join-abnormal", format!("factory join handle: {:?}", run.factory_join)));
    }
    // safety rules (always)
    let mut lost_by_death: BTreeMap<(usize, u32), Vec<u32>> = BTreeMap::new();
    let ev = &run.events;
    // job id k is the k-th dispatch of the dispatcher script
    let ttl_of: Vec<Option<u16>> = case.dispatcher.iter().filter_map(|o| if let FOp::Dispatch { ttl_ms, .. } = o { Some(*ttl_ms) } else { None }).collect();
    let limit_ever = case.discard.is_some() || case.dynamic.is_some() || case.controller.iter().any(|o| matches!(o, FOp::SetDiscard { .. }));
    for (id, f) in &facts {
        // the reason given to the discard handler must be one that applies to this job
        if let Some((at, reason)) = f.discards.first() {
            if reason == "TtlExpired" && *id < 9000 {
                match ttl_of.get(*id as usize).copied().flatten() {
                    None => return Err(viol("C13/discard-reason-not-applicable", format!("job {id} has no time-to-live but was discarded as TtlExpired: {f:?}"))),
                    Some(ttl) => {
                        let age_ns = ev[*at].0.saturating_sub(ev.get(f.dispatched_at).map_or(0, |x| x.0));
                        if f.sent && age_ns < ttl as u64 * 1_000_000 {
                            return Err(viol("C13/discard-reason-not-applicable", format!("job {id} (time-to-live {ttl} ms) was discarded as TtlExpired {} ns after it was submitted", age_ns)));
                        }
                    }
                }
            }
            if reason == "RateLimited" && case.ratelimit.is_none() {
                return Err(viol("C13/discard-reason-not-applicable", format!("job {id} was discarded as RateLimited but no rate limiter is configured")));
            }
            if reason == "Loadshed" && !limit_ever {
                return Err(viol("C13/discard-reason-not-applicable", format!("job {id} was discarded as Loadshed but no discard limit was ever configured")));
            }
        }
        if f.starts.len() > 1 {
            return Err(viol("C13/handled-twice", format!("job {id} (key {}) was started {} times: {:?}", f.key, f.starts.len(), f.starts)));
        }
        if !f.starts.is_empty() && !f.discards.is_empty() {
            return Err(viol("C13/handled-and-discarded", format!("job {id} was handled ({:?}) and also discarded ({:?})", f.starts, f.discards)));
        }
        if f.discards.len() > 1 {
            return Err(viol("C13/discarded-twice", format!("job {id} was discarded {} times: {:?}", f.discards.len(), f.discards)));
        }
        if f.port == Some(false) && !f.starts.is_empty() {
            return Err(viol("C13/returned-and-handled", format!("job {id} was handed back through its acceptance port and also handled")));
        }
        if !f.sent && (!f.starts.is_empty() || !f.discards.is_empty()) {
            return Err(viol("C13/unsent-job-processed", format!("dispatch of job {id} failed (factory gone) but the job was processed")));
        }
        if let Some((_, wid, inc)) = f.starts.first() {
            if f.ends.is_empty() {
                lost_by_death.entry((*wid, *inc)).or_default().push(*id);
            }
        }
    }
    for ((wid, inc), ids) in &lost_by_death {
        if ids.len() > 1 {
            return Err(viol("C13/two-jobs-lost-with-one-worker", format!("incarnation {inc} of worker {wid} started jobs {ids:?} and finished none of them")));
        }
    }
    if run.ends.iter().all(|e| *e == DriveEnd::Done) && run.factory_join.is_none() {
        let pending: Vec<u32> = facts.iter().filter(|(_, f)| f.sent && f.starts.is_empty() && f.discards.is_empty() && f.port != Some(false)).map(|(id, _)| *id).collect();
        return Err(viol(
            "C13/factory-never-finished",
            format!("{:?} was requested, every hanging worker was killed, yet 10 virtual seconds later the factory is still running; accepted jobs without a fate: {pending:?}", case.ending),
        ));
    }
    // completeness (orderly runs that reached their end)
    if complete {
        let abrupt = case.ending == Ending::StopAbrupt;
        let mut vanished: Vec<u32> = vec![];
        for (id, f) in &facts {
            // a job whose acceptance port died unanswered never reached the factory's handler
            // (the factory had stopped with the message still in its mailbox)
            if !f.sent || f.port_dead {
                continue;
            }
            let has_fate = !f.starts.is_empty() || !f.discards.is_empty() || f.port == Some(false);
            if !has_fate {
                vanished.push(*id);
            }
        }
        if !vanished.is_empty() {
            // jobs may be lost only together with a worker death: at most one per death, and it must
            // have been in that worker's hands (cast to it, not yet started)
            // a factory that is *stopped* (not drained) stops its workers: each of them may take the one
            // job already cast to it, but not yet started, with it
            let stopped_ending = matches!(case.ending, Ending::StopAbrupt | Ending::StopQuiet);
            let mut holders: BTreeSet<(usize, u32)> = dead.clone();
            if stopped_ending {
                let mut latest: BTreeMap<usize, u32> = BTreeMap::new();
                for (_, e) in &run.events {
                    if let FEv::Build { wid, inc, .. } = e {
                        latest.insert(*wid, *inc);
                    }
                }
                holders.extend(latest.into_iter());
            }
            let allowed = holders.len().saturating_sub(lost_by_death.len());
            let sig = if stopped_ending {
                "C13/job-vanished-at-stop"
            } else if dead.is_empty() {
                "C13/job-vanished-healthy"
            } else {
                "C13/job-vanished"
            };
            let _ = abrupt;
            if vanished.len() > allowed || holders.is_empty() {
                return Err(viol(
                    sig,
                    format!(
                        "jobs {vanished:?} were accepted but were neither handled, discarded nor returned ({} worker deaths, {} workers that could have held one un-started job, {} of them already account for a started job); ending {:?}, routing {:?}",
                        dead.len(),
                        holders.len(),
                        lost_by_death.len(),
                        case.ending,
                        case.routing
                    ),
                ));
            }
            labels.push("lost-with-worker".into());
        }
        labels.push("complete".into());
    }
    let nontrivial = !dead.is_empty() && facts.len() >= 3 || run.events.iter().any(|(_, e)| matches!(e, FEv::Resize { .. }));
    Ok((nontrivial, labels))
}

pub struct C13;
impl Part for C13 {
    type Case = FCase;
    const PROP: &'static str = "C13";
    const PART: &'static str = "e1";
    fn cases(tier: Tier) -> u32 {
        match tier {
            Tier::Quick => 120_000,
            Tier::Thorough => 2_000_000,
        }
    }
    fn strategy(tier: Tier) -> BoxedStrategy<FCase> {
        strategy(tier, Flavor::Fate)
    }
    fn run(case: &FCase, want_trace: bool) -> Outcome {
        let run = execute(case);
        outcome(check_c13(case, &run), &run, want_trace)
    }
    fn rule() -> &'static str {
        "generated factory configuration (5 routing modes incl. table-driven custom hash with extreme outputs, default/priority queue, 0-4 workers, discard limit 0-3 newest/oldest, optional leaky bucket, optional dead-man's switch) and history (dispatches with 4 keys, optional TTL and acceptance port, per-job worker outcome work/yield/panic/Err/hang; a controller resizing the pool, changing discard settings and killing worker incarnations at generated times; orderly, early-drain, quiet-stop or abrupt-stop ending) on the E1 gate with a virtual clock; oracle = job-fate conservation over the recorded history (exactly one of handled / discarded / returned / lost with a worker death, at most one lost job per death, nothing lost while workers are healthy); non-trivial = a worker died or the pool was resized with >=3 jobs in the history"
    }
}


// ---- C14: routing promises -------------------------------------------------------------

pub fn check_c14(case: &FCase, run: &Run) -> Result<(bool, Vec<String>), Violation> {
    let labels = vec![format!("{:?}", case.routing)];
    if let Some(e) = &run.spawn_err {
        return Err(viol("C14/factory-spawn-failed", e.clone()));
    }
    if run.factory_join.is_some() && run.factory_join.as_deref() != Some("ok") {
        return Err(viol("C14/factory-failed", format!("factory join handle: {:?}", run.factory_join)));
    }
    let ev = &run.events;
    // handling intervals: (start idx, end idx or death idx, wid, inc, key, id)
    let mut iv: Vec<(usize, usize, usize, u32, u64, u32)> = vec![];
    for (i, (_, e)) in ev.iter().enumerate() {
        if let FEv::Start { wid, inc, key, id } = e {
            let end = ev[i..]
                .iter()
                .position(|(_, x)| match x {
                    FEv::End { id: i2, .. } => i2 == id,
                    // the incarnation is gone once its replacement is built
                    FEv::Build { wid: w2, inc: i2, .. } => w2 == wid && i2 > inc,
                    _ => false,
                })
                .map(|p| i + p)
                .unwrap_or(ev.len());
            iv.push((i, end, *wid, *inc, *key, *id));
        }
    }
    // one job at a time per incarnation
    for a in &iv {
        for b in &iv {
            if a.5 != b.5 && a.2 == b.2 && a.3 == b.3 && a.0 < b.1 && b.0 < a.1 {
                return Err(viol("C14/two-jobs-at-once-on-one-worker", format!("worker {} (incarnation {}) handled jobs {} and {} at the same time", a.2, a.3, a.5, b.5)));
            }
        }
    }
    let resized = ev.iter().any(|(_, e)| matches!(e, FEv::Resize { .. }));
    let deaths = deaths(run);
    let mut nontrivial = false;
    // Known finding (see known-findings.json): a worker that dies right after reporting the completion
    // of a job of key k leaves a stale `Finished(wid, k)` in the factory's mailbox; the factory first
    // replaces the worker and hands it the next queued job of key k, then matches the stale completion
    // against that job (completions are matched by slot and key only) and forgets that key k is pending
    // on that slot. The classifier recognises exactly this history.
    let stale_completion = |key: u64| -> bool {
        ev.iter().enumerate().any(|(i, (_, e))| {
            if let FEv::End { wid, inc, key: k, .. } = e {
                if *k != key {
                    return false;
                }
                // the incarnation was replaced afterwards, before it started anything else ...
                let rebuilt = ev[i..].iter().position(|(_, x)| matches!(x, FEv::Build { wid: w2, inc: i2, .. } if w2 == wid && *i2 > *inc));
                let started_more = ev[i..].iter().position(|(_, x)| matches!(x, FEv::Start { wid: w2, inc: i2, .. } if w2 == wid && i2 == inc));
                match (rebuilt, started_more) {
                    (Some(r), None) => {
                        // ... and the replacement took over a queued job of the same key
                        ev[i + r..].iter().any(|(_, x)| matches!(x, FEv::Start { wid: w2, inc: i2, key: k2, .. } if w2 == wid && *i2 > *inc && *k2 == key))
                    }
                    (Some(r), Some(s)) if r < s => ev[i + r..].iter().any(|(_, x)| matches!(x, FEv::Start { wid: w2, inc: i2, key: k2, .. } if w2 == wid && *i2 > *inc && *k2 == key)),
                    _ => false,
                }
            } else {
                false
            }
        })
    };
    match case.routing {
        Routing::KeyPersistent | Routing::Sticky => {
            for a in &iv {
                for b in &iv {
                    if a.5 < b.5 && a.4 == b.4 && a.2 != b.2 && a.0 < b.1 && b.0 < a.1 {
                        return Err(viol(
                            if stale_completion(a.4) { "C14/stale-completion-after-replacement/same-key-on-two-workers" } else { "C14/same-key-on-two-workers" },
                            format!("{:?}: jobs {} and {} of key {} were in progress at the same time on workers {} and {}", case.routing, a.5, b.5, a.4, a.2, b.2),
                        ));
                    }
                }
            }
            if case.routing == Routing::KeyPersistent {
                let mut last: HashMap<u64, u32> = HashMap::new();
                for a in &iv {
                    if let Some(prev) = last.get(&a.4) {
                        if *prev > a.5 && a.5 < 9000 {
                            return Err(viol(if stale_completion(a.4) { "C14/stale-completion-after-replacement/key-order" } else { "C14/key-order" }, format!("key {}: job {} was handled after job {} although it was submitted earlier", a.4, a.5, prev)));
                        }
                    }
                    last.insert(a.4, a.5);
                }
            }
            // same key active during a resize or a replacement
            for (i, (_, e)) in ev.iter().enumerate() {
                if matches!(e, FEv::Resize { .. } | FEv::KillIssued { .. }) {
                    let active: Vec<u64> = iv.iter().filter(|x| x.0 < i && i < x.1).map(|x| x.4).collect();
                    let queued_same = iv.iter().any(|x| x.0 > i && active.contains(&x.4));
                    if queued_same {
                        nontrivial = true;
                    }
                }
            }
        }
        Routing::Custom => {
            let mut max_pool = case.workers as usize;
            for (_, e) in ev.iter() {
                match e {
                    FEv::Resize { to } if *to > 0 => max_pool = max_pool.max(*to),
                    FEv::Start { wid, id, .. } => {
                        if *wid >= max_pool.max(1) {
                            return Err(viol("C14/custom-hash-outside-pool", format!("job {id} ran on worker {wid} but the pool never had more than {max_pool} workers")));
                        }
                    }
                    _ => {}
                }
            }
            // ... and inside the pool as it was when the dispatch reached the factory: resize requests and dispatches
            // travel through the same mailbox, so the size in force is the last one requested before the dispatch was sent
            // (a job that arrives while the pool is empty waits in the backlog and is routed when workers appear: not judged)
            let mut cur = case.workers as usize;
            let mut size_at: HashMap<u32, usize> = HashMap::new();
            for (_, e) in ev.iter() {
                match e {
                    FEv::Resize { to } => cur = *to,
                    FEv::DispatchSent { id } => {
                        if cur > 0 {
                            size_at.insert(*id, cur);
                        }
                    }
                    FEv::Start { wid, id, .. } => {
                        if let Some(n) = size_at.get(id) {
                            if *wid >= *n {
                                return Err(viol("C14/custom-hash-outside-pool", format!("job {id} was dispatched when the requested pool size was {n}, yet it ran on worker {wid}")));
                            }
                        }
                    }
                    _ => {}
                }
            }
            nontrivial = case.hash_table.iter().any(|h| *h as usize >= case.workers as usize) && !iv.is_empty();
            // whatever the hash returns the job must land on a worker: an unroutable job waits forever
            if run.ends.iter().all(|e| *e == DriveEnd::Done) && run.factory_join.is_none() {
                let f = facts(run);
                let pending: Vec<u32> = f.iter().filter(|(_, x)| x.sent && !x.port_dead && x.starts.is_empty() && x.discards.is_empty()).map(|(i, _)| *i).collect();
                if !pending.is_empty() {
                    return Err(viol("C14/custom-hash-unroutable", format!("custom hash table {:?}: jobs {pending:?} were never given to a worker and the factory cannot drain", case.hash_table)));
                }
            }
        }
        Routing::RoundRobin => {
            let healthy = !resized && deaths.is_empty() && case.discard.is_none() && case.ratelimit.is_none() && case.dead_mans_ms.is_none() && case.workers >= 2;
            let no_ttl = case.dispatcher.iter().all(|o| !matches!(o, FOp::Dispatch { ttl_ms: Some(_), .. }));
            if healthy && no_ttl {
                let n = case.workers as usize;
                let by_id: BTreeMap<u32, usize> = iv.iter().filter(|x| x.5 < 9000).map(|x| (x.5, x.2)).collect();
                let ids: Vec<u32> = by_id.keys().copied().collect();
                // only judge windows of consecutive ids that were all handled
                for w in ids.windows(n) {
                    if w[n - 1] - w[0] == (n as u32 - 1) {
                        let set: BTreeSet<usize> = w.iter().map(|i| by_id[i]).collect();
                        if set.len() != n {
                            return Err(viol("C14/round-robin-uneven", format!("consecutive jobs {w:?} ran on workers {:?}: not all {n} workers were used", w.iter().map(|i| by_id[i]).collect::<Vec<_>>())));
                        }
                        nontrivial = true;
                    }
                }
            }
        }
        Routing::Queuer => {}
    }
    let last_quiet = ev.iter().rposition(|(_, e)| matches!(e, FEv::Quiet { .. })).unwrap_or(0);
    let had_workers = ev[..last_quiet].iter().any(|(_, e)| matches!(e, FEv::Build { .. }));
    if matches!(case.routing, Routing::Queuer | Routing::Sticky) && case.ratelimit.is_none() && had_workers {
        // at final quiescence no job waits in the factory queue while every worker idles
        let quiet: Vec<(usize, usize)> = ev.iter().filter_map(|(_, e)| if let FEv::Quiet { depth, active } = e { Some((*depth, *active)) } else { None }).collect();
        if quiet.len() >= 60 {
            if let Some((d, a)) = quiet.last() {
                if *d > 0 && *a == 0 {
                    return Err(viol("C14/queue-stalled", format!("{:?}: {d} jobs have been waiting in the factory queue for 1.5 virtual seconds while no worker is busy", case.routing)));
                }
            }
        }
        if case.routing == Routing::Queuer && ev.iter().any(|(_, e)| matches!(e, FEv::KillIssued { .. })) && quiet.iter().any(|(d, _)| *d > 0) {
            nontrivial = true;
        }
    }
    Ok((nontrivial, labels))
}

pub struct C14;
impl Part for C14 {
    type Case = FCase;
    const PROP: &'static str = "C14";
    const PART: &'static str = "e1";
    fn cases(tier: Tier) -> u32 {
        match tier {
            Tier::Quick => 120_000,
            Tier::Thorough => 2_000_000,
        }
    }
    fn strategy(tier: Tier) -> BoxedStrategy<FCase> {
        strategy(tier, Flavor::Routing)
    }
    fn run(case: &FCase, want_trace: bool) -> Outcome {
        let run = execute(case);
        outcome(check_c14(case, &run), &run, want_trace)
    }
    fn rule() -> &'static str {
        "the factory generator with key-heavy streams (mostly 2 keys, occasionally up to 4, many jobs), resizes while a key is in flight, kills of worker incarnations at generated times (incl. right after a completion was reported); oracle over the recorded Start/End/Build history: same-key intervals on different slots never overlap (key-persistent, sticky), per-key handling order equals submission order (key-persistent), custom hash (table with 0, pool, huge values) always lands inside the pool, round-robin windows of pool_size consecutive jobs use pool_size distinct workers (static healthy pool), no job waits in the factory queue while all workers idle (queuer, sticky), one job at a time per incarnation; non-trivial = the same key was active during a resize/replacement, a custom hash pointed outside the pool, or a full round-robin window was judged"
    }
}

// ---- C15: capacity controls ------------------------------------------------------------

pub fn check_c15(case: &FCase, run: &Run) -> Result<(bool, Vec<String>), Violation> {
    let mut labels = vec![];
    if let Some(e) = &run.spawn_err {
        return Err(viol("C15/factory-spawn-failed", e.clone()));
    }
    let ev = &run.events;
    let facts = facts(run);
    let factory_queueing = matches!(case.routing, Routing::Queuer | Routing::Sticky);
    let mut nontrivial = false;
    // --- queue bound
    // the factory processes its mailbox in arrival order = the order of the casts in this log
    let sent_pos: HashMap<u32, usize> = ev.iter().enumerate().filter_map(|(i, (_, e))| if let FEv::DispatchSent { id } = e { Some((*id, i)) } else { None }).collect();
    let limit_at = |pos: usize| -> (Option<(usize, bool)>, bool) {
        let mut limit: Option<(usize, bool)> = case.discard.map(|(l, n)| (l as usize, n));
        let mut lowered = false;
        for (_, e) in &ev[..pos] {
            if let FEv::SetDiscard { limit: l, newest } = e {
                // a limit lowered at runtime is enforced on the jobs already waiting only by the oldest-first
                // mode, and only when the dispatch goes through the factory queue (sticky routing can bypass it)
                if limit.map_or(true, |(old, _)| *l < old) {
                    lowered = true;
                }
                limit = Some((*l, *newest));
            }
        }
        (limit, lowered)
    };
    let limit_changed = ev.iter().any(|(_, e)| matches!(e, FEv::SetDiscard { .. }));
    for (_, e) in ev.iter() {
        if let FEv::Depth { after, depth } = e {
            let Some(sp) = sent_pos.get(after) else { continue };
            if let (Some((l, newest)), lowered) = limit_at(*sp) {
                // a job refused by the rate limiter never reaches the queue, so a limit that was lowered at
                // run time cannot be enforced on the jobs already waiting by that dispatch
                let rate_limited = ev.iter().any(|(_, x)| matches!(x, FEv::Discard { reason, id } if *id == *after && reason == "RateLimited"));
                let judge = factory_queueing && !case.priority_queue && (!lowered || (!newest && case.routing == Routing::Queuer && !rate_limited));
                if judge && *depth > l {
                    return Err(viol("C15/queue-over-limit", format!("after job {after} was processed the factory queue holds {depth} jobs, the discard limit in force was {l} ({})", if newest { "newest" } else { "oldest" })));
                }
                if judge && *depth == l && l > 0 {
                    nontrivial = true;
                    labels.push("limit-reached".to_string());
                }
            }
        }
    }
    // shed jobs carry the right reason, and only when a limit exists
    let any_limit = case.discard.is_some() || case.dynamic.is_some() || ev.iter().any(|(_, e)| matches!(e, FEv::SetDiscard { .. }));
    for (id, f) in &facts {
        for (_, r) in &f.discards {
            if r == "Loadshed" && !any_limit {
                return Err(viol("C15/loadshed-without-limit", format!("job {id} was load-shed although no discard limit was ever configured")));
            }
            if r == "RateLimited" && case.ratelimit.is_none() {
                return Err(viol("C15/rate-limited-without-limiter", format!("job {id} was reported rate-limited although no limiter is installed")));
            }
        }
    }
    // worker-queued routing: per-slot waiting count (accepted, not started, not discarded) after each processed dispatch
    if !factory_queueing && !limit_changed && run.factory_join.as_deref() == Some("ok") && matches!(case.ending, Ending::Drain) {
        if let Some((l, _)) = case.discard {
            let l = l as usize;
            for (i, (_, e)) in ev.iter().enumerate() {
                if let FEv::Depth { .. } = e {
                    let mut waiting: HashMap<usize, usize> = HashMap::new();
                    for (id, f) in &facts {
                        if *id >= 9000 || !f.sent || f.dispatched_at > i {
                            continue;
                        }
                        if let Some((spos, wid, _)) = f.starts.first() {
                            if *spos > i && f.discards.is_empty() {
                                *waiting.entry(*wid).or_default() += 1;
                            }
                        }
                    }
                    for (w, n) in waiting {
                        // one job may already sit in the worker's own mailbox (dispatched, not started)
                        if n > l + 1 {
                            return Err(viol("C15/worker-queue-over-limit", format!("{n} accepted jobs were waiting for worker {w} (limit {l} + the one in flight) at event {i}")));
                        }
                    }
                }
            }
        }
    }
    // dynamic discard limit: the limit answered by the controller at a ping round is in force, in the factory and in
    // every worker, once the workers have answered that ping (<= one job, 15 ms; 100 ms allowed). Judged per phase:
    // only jobs dispatched after that moment and before the next answer are counted (older ones have long finished).
    if let Some((initial, _, _)) = &case.dynamic {
        let mut changes: Vec<(u64, usize)> = vec![(0, *initial as usize)];
        changes.extend(ev.iter().filter_map(|(t, e)| if let FEv::DynLimit { limit } = e { Some((*t + 100_000_000, *limit)) } else { None }));
        let raw_changes: Vec<u64> = ev.iter().filter_map(|(t, e)| if matches!(e, FEv::DynLimit { .. }) { Some(*t) } else { None }).collect();
        for (i, (t, e)) in ev.iter().enumerate() {
            let FEv::Depth { after, depth } = e else { continue };
            let Some(sp) = sent_pos.get(after) else { continue };
            let sent_t = ev[*sp].0;
            // the limit in force when the dispatch was sent, unless a controller answer is less than 100 ms old then or arrives before the probe is answered
            let Some(&(since, l)) = changes.iter().rev().find(|(from, _)| *from <= sent_t) else { continue };
            if raw_changes.iter().any(|c| *c + 100_000_000 > sent_t && *c <= *t) {
                continue;
            }
            if factory_queueing {
                if *depth > l {
                    return Err(viol("C15/queue-over-limit", format!("dynamic discard limit: after job {after} was processed the factory queue holds {depth} jobs, the limit answered by the controller and in force was {l}")));
                }
            } else {
                let mut waiting: HashMap<usize, usize> = HashMap::new();
                for (id, f) in &facts {
                    if *id >= 9000 || !f.sent || f.dispatched_at > i || ev[f.dispatched_at].0 < since {
                        continue;
                    }
                    if let Some((spos, wid, _)) = f.starts.first() {
                        if *spos > i && f.discards.is_empty() {
                            *waiting.entry(*wid).or_default() += 1;
                        }
                    }
                }
                for (w, n) in waiting {
                    if n > l + 1 {
                        return Err(viol("C15/worker-queue-over-limit", format!("dynamic discard limit: {n} jobs accepted since the limit {l} came into force were waiting for worker {w} (limit {l} + the one in the worker's mailbox) when job {after} had been processed")));
                    }
                }
            }
            if l == 0 || *depth == l {
                nontrivial = true;
                labels.push("dynamic-limit-in-force".to_string());
            }
        }
    }
    // --- rate limiter inside the factory: handled jobs per window
    if let Some((refill, interval, max, initial)) = case.ratelimit {
        // The limiter sits in front of the router: it bounds *admissions*. With a factory queue a job is
        // admitted when it is handed to a worker (its start); with worker-queued routing it is admitted when
        // the dispatch is processed and may start much later, in a burst. There the admission instant is only
        // known to lie between the send of the dispatch and the answer of the depth probe queued right behind
        // it, so the span between two admissions is bounded from below by send(b) - probe(a).
        let starts: Vec<(u64, u64)> = if factory_queueing {
            ev.iter().filter_map(|(t, e)| if matches!(e, FEv::Start { .. }) { Some((*t, *t)) } else { None }).collect()
        } else {
            let mut v = vec![];
            for (id, f) in &facts {
                // counted as admitted: the jobs that were eventually started (a job that was shed, expired or
                // died with its worker may or may not have consumed a token: leaving it out is the sound side)
                if *id >= 9000 || !f.sent || f.starts.is_empty() {
                    continue;
                }
                let sent_t = ev.get(f.dispatched_at).map(|x| x.0);
                let probe_t = ev.iter().find_map(|(t, e)| if matches!(e, FEv::Depth { after, .. } if *after == *id) { Some(*t) } else { None });
                if let (Some(a), Some(b)) = (sent_t, probe_t) {
                    v.push((a, b));
                }
            }
            v.sort();
            v
        };
        let interval_ns = interval as u64 * 1_000_000;
        for a in 0..starts.len() {
            for b in a..starts.len() {
                let n = (b - a + 1) as u64;
                let span = starts[b].0.saturating_sub(starts[a].1);
                let periods = if interval_ns == 0 { u64::MAX } else { span / interval_ns + 2 };
                let bound = (initial.min(max) as u64).max(max as u64).saturating_add(periods.saturating_mul(refill as u64));
                if n > bound {
                    return Err(viol("C15/rate-limit-exceeded", format!("{n} jobs admitted within {span}ns with refill {refill}/{interval}ms, max {max}, initial {initial}")));
                }
            }
        }
        if ev.iter().any(|(_, e)| matches!(e, FEv::Discard { reason, .. } if reason == "RateLimited")) {
            nontrivial = true;
            labels.push("rate-limited".into());
        }
    }
    // --- pool size convergence
    let mut want = case.workers as usize;
    for (_, e) in ev.iter() {
        if let FEv::Resize { to } = e {
            if *to > 0 {
                want = *to;
            }
        }
        if let FEv::PoolObserved { children, alive } = e {
            // judged only when the last resize request was cast well before the observation
            if *children != want {
                return Err(viol("C15/pool-size-not-converged", format!("at quiescence the factory has {children} live workers ({alive:?}), the last requested non-zero size is {want}")));
            }
            let resizes = ev.iter().filter(|(_, x)| matches!(x, FEv::Resize { .. })).count();
            if resizes >= 2 || ev.iter().any(|(_, x)| matches!(x, FEv::KillIssued { .. })) {
                nontrivial = true;
                labels.push("pool-converged".into());
            }
        }
    }
    // --- draining
    let hooks: Vec<&str> = ev.iter().filter_map(|(_, e)| if let FEv::Hook(h) = e { Some(*h) } else { None }).collect();
    let finished = run.factory_join.as_deref() == Some("ok");
    if run.factory_join.is_some() && !finished {
        return Err(viol("C15/factory-failed", format!("{:?}", run.factory_join)));
    }
    if run.ends.iter().all(|e| *e == DriveEnd::Done) {
        match case.ending {
            Ending::Drain | Ending::DrainEarly => {
                if !finished {
                    return Err(viol("C15/drain-never-completes", "DrainRequests was sent, hanging workers were killed, but the factory never stopped"));
                }
                if hooks != ["started", "draining", "stopped"] {
                    return Err(viol("C15/lifecycle-hooks-order", format!("hooks ran as {hooks:?}")));
                }
                // late jobs are refused
                for id in [9000u32, 9001] {
                    if let Some(f) = facts.get(&id) {
                        if !f.starts.is_empty() || f.port == Some(true) {
                            return Err(viol("C15/job-admitted-while-draining", format!("job {id} was submitted after DrainRequests and was accepted / handled: {f:?}")));
                        }
                    }
                }
                // every job that reached the factory before the drain request is worked off, not shut down
                if let Some(drain_idx) = ev.iter().position(|(_, e)| matches!(e, FEv::DrainRequested)) {
                    for (id, f) in facts.iter() {
                        if *id < 9000 && f.sent && f.dispatched_at < drain_idx && f.discards.iter().any(|(_, r)| r.contains("Shutdown")) {
                            return Err(viol("C15/accepted-job-shut-down-by-drain", format!("job {id} was sent to the factory before DrainRequests, yet the drained factory stopped without running it and reported it as discarded at shutdown: {f:?}")));
                        }
                    }
                }
                if case.ending == Ending::DrainEarly && facts.values().any(|f| !f.starts.is_empty()) {
                    nontrivial = true;
                    labels.push("drain-with-jobs-in-flight".into());
                }
            }
            Ending::StopQuiet | Ending::StopAbrupt => {
                if finished && hooks != ["started", "stopped"] {
                    return Err(viol("C15/lifecycle-hooks-order", format!("hooks ran as {hooks:?}")));
                }
            }
        }
    }
    Ok((nontrivial, labels))
}

pub struct C15;
impl Part for C15 {
    type Case = FCase;
    const PROP: &'static str = "C15";
    const PART: &'static str = "e1";
    fn cases(tier: Tier) -> u32 {
        match tier {
            Tier::Quick => 120_000,
            Tier::Thorough => 2_000_000,
        }
    }
    fn strategy(tier: Tier) -> BoxedStrategy<FCase> {
        prop_oneof![9 => strategy(tier, Flavor::Capacity), 1 => dynamic_strategy(tier)].boxed()
    }
    fn run(case: &FCase, want_trace: bool) -> Outcome {
        let run = execute(case);
        outcome(check_c15(case, &run), &run, want_trace)
    }
    fn rule() -> &'static str {
        "the factory generator weighted towards capacity controls (discard limits 0-3 newest/oldest, runtime limit changes, leaky bucket, resize sequences with busy workers and kills, drain requested with jobs in flight and jobs submitted after it); oracle: queue depth read by an RPC queued right behind every dispatch never exceeds the limit in force (factory-queued routing), per-slot waiting count derived from the history <= limit+1 (worker-queued), shed jobs reported once with reason Loadshed and only discardable ones, started jobs per window obey the token-bucket bound, live worker children at quiescence == last requested non-zero size, DrainRequests => late jobs refused, factory stops, hooks == [started, draining, stopped]; non-trivial = limit reached / rate limited / >=2 resizes or a kill before convergence / drain with jobs in flight"
    }
}

// ---- C15 e0: leaky bucket vs. a u128 reference model ------------------------------------

#[derive(Clone, Debug, Serialize, Deserialize)]
pub enum BOp {
    Advance(u64),
    Check,
    Bump,
    /// check + bump if admitted (what the router does)
    Admit,
}

#[derive(Clone, Debug, Serialize, Deserialize)]
pub struct BCase {
    pub refill: u64,
    pub interval_ns: u64,
    pub max: u64,
    pub initial: Option<u64>,
    pub ops: Vec<BOp>,
}

pub struct C15Bucket;
impl Part for C15Bucket {
    type Case = BCase;
    const PROP: &'static str = "C15";
    const PART: &'static str = "e0-bucket";
    fn cases(tier: Tier) -> u32 {
        match tier {
            Tier::Quick => 60_000,
            Tier::Thorough => 2_000_000,
        }
    }
    fn strategy(_tier: Tier) -> BoxedStrategy<BCase> {
        let big = prop_oneof![4 => 0u64..6, 1 => Just(u64::MAX), 1 => Just(isize::MAX as u64), 1 => Just(u64::MAX / 2)];
        let interval = prop_oneof![1 => Just(0u64), 4 => 1u64..50_000_000, 1 => Just(1u64), 1 => Just(u64::MAX / 4), 1 => (1u64..20).prop_map(|ms| ms * 1_000_000)];
        let op = prop_oneof![
            4 => prop_oneof![3 => 0u64..30_000_000, 1 => Just(1u64), 1 => Just(3_600_000_000_000u64)].prop_map(BOp::Advance),
            2 => Just(BOp::Check),
            1 => Just(BOp::Bump),
            6 => Just(BOp::Admit),
        ];
        (big.clone(), interval, big.clone(), prop_oneof![1 => Just(None), 2 => big.prop_map(Some)], proptest::collection::vec(op, 1..=40))
            .prop_map(|(refill, interval_ns, max, initial, ops)| BCase { refill, interval_ns, max, initial, ops })
            .boxed()
    }
    fn run(case: &BCase, want_trace: bool) -> Outcome {
        use ractor::factory::ratelim::RateLimiter;
        let case = case.clone();
        let rt = tokio::runtime::Builder::new_current_thread().enable_time().start_paused(true).build().unwrap();
        let mut trace = vec![];
        let r: Result<(bool, Vec<String>), Violation> = rt.block_on(async {
            let mut b = LeakyBucketRateLimiter::builder()
                .refill(case.refill as usize)
                .interval(Duration::from_nanos(case.interval_ns))
                .max(case.max as usize)
                .maybe_initial(case.initial.map(|i| i as usize))
                .build();
            // reference model in u128
            let cap = ractor::factory::ratelim::MAX_LB_BALANCE as u128;
            let max = case.max as u128;
            // exact balances are compared only where no saturation can be involved; at the extremes
            // the property only demands: no panic, balance <= max, and the window bound
            let exact = case.refill < (1 << 32) && case.max < (1 << 40) && case.initial.unwrap_or(0) < (1 << 40) && (case.interval_ns == 0 || case.interval_ns >= 1000);
            let mut balance: u128 = case.initial.map(|i| i as u128).unwrap_or(max).min(max);
            let mut now: u128 = 0;
            // boundaries at interval, 2*interval, ... (interval 0: every check refills once)
            let mut next_deadline: Option<u128> = Some(case.interval_ns as u128);
            let mut admitted_at: Vec<(u128, u128)> = vec![]; // (time, model balance before admit)
            let mut limited = false;
            for (k, op) in case.ops.iter().enumerate() {
                let mut refresh = |balance: &mut u128, next_deadline: &mut Option<u128>, now: u128| {
                    if let Some(d) = *next_deadline {
                        if now >= d {
                            if case.interval_ns == 0 {
                                *balance = (*balance + case.refill as u128).min(max);
                                *next_deadline = Some(now);
                            } else {
                                let periods = (now - d) / case.interval_ns as u128 + 1;
                                let tokens = (periods * case.refill as u128).min(cap);
                                *balance = (*balance + tokens).min(max);
                                *next_deadline = Some(d + periods * case.interval_ns as u128);
                            }
                        }
                    }
                };
                match op {
                    BOp::Advance(ns) => {
                        tokio::time::advance(Duration::from_nanos(*ns)).await;
                        now += *ns as u128;
                    }
                    BOp::Check | BOp::Admit => {
                        refresh(&mut balance, &mut next_deadline, now);
                        let got = b.check();
                        let want = balance > 0;
                        if want_trace {
                            trace.push(format!("op {k} {op:?} at t={now}: check -> {got}, impl balance {}, model balance {balance}", b.balance));
                        }
                        if !exact {
                            balance = b.balance as u128;
                        }
                        if exact && got != want {
                            return Err(viol("C15/bucket-check-mismatch", format!("op {k} at t={now}ns: check() = {got}, the reference model has balance {balance} (impl balance {})", b.balance)));
                        }
                        if got != (b.balance > 0) {
                            return Err(viol("C15/bucket-check-inconsistent", format!("op {k}: check() = {got} with balance {}", b.balance)));
                        }
                        if exact && b.balance as u128 != balance {
                            return Err(viol("C15/bucket-balance-mismatch", format!("op {k} at t={now}ns: impl balance {} != model balance {balance}", b.balance)));
                        }
                        if b.balance as u128 > max {
                            return Err(viol("C15/bucket-over-max", format!("balance {} exceeds max {max}", b.balance)));
                        }
                        if matches!(op, BOp::Admit) && got {
                            admitted_at.push((now, balance));
                            b.bump();
                            balance -= 1;
                        }
                        if !got {
                            limited = true;
                        }
                    }
                    BOp::Bump => {
                        b.bump();
                        if balance > 0 {
                            balance -= 1;
                        }
                        if !exact {
                            balance = b.balance as u128;
                        }
                        if b.balance as u128 != balance {
                            return Err(viol("C15/bucket-balance-mismatch", format!("op {k}: after bump impl balance {} != model balance {balance}", b.balance)));
                        }
                    }
                }
            }
            // window bound, independent of the incremental model: admitted in (t1, t2] <= balance(t1) + refill * boundaries in (t1, t2]
            if case.interval_ns > 0 {
                for i in 0..admitted_at.len() {
                    for j in i..admitted_at.len() {
                        let n = (j - i + 1) as u128;
                        let (t1, b1) = admitted_at[i];
                        let t2 = admitted_at[j].0;
                        let boundaries = t2 / case.interval_ns as u128 - t1 / case.interval_ns as u128;
                        let bound = b1.min(max) + boundaries * case.refill as u128;
                        if n > bound {
                            return Err(viol("C15/bucket-window-exceeded", format!("{n} admissions in [{t1},{t2}]ns; balance at the start {b1}, {boundaries} refills of {}", case.refill)));
                        }
                    }
                }
            }
            Ok((limited && !admitted_at.is_empty(), vec![]))
        });
        match r {
            Err(v) => Outcome { verdict: Verdict::Fail(v), nontrivial: false, labels: vec![], trace },
            Ok((nt, labels)) => Outcome { verdict: Verdict::Pass, nontrivial: nt, labels, trace },
        }
    }
    fn rule() -> &'static str {
        "generated (refill, interval, max, initial) incl. 0, 1, usize::MAX, isize::MAX, a zero and a huge interval, and 1-40 ops advance(dt on the paused clock) / check / bump / admit; oracle = reference model in u128 arithmetic compared after every op (check result and balance), balance <= max, plus the window bound admitted(t1,t2] <= balance(t1) + refill x interval boundaries crossed; a panic (overflow) is a harness-visible failure; non-trivial = the limiter both admitted and refused in one history"
    }
}
