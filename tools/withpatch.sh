#!/bin/bash
# usage: withpatch.sh <patch.diff> <command...>   — apply a patch to /repo, run the command, always undo
P="$(realpath "$1")"; shift
cd /repo
if ! git apply "$P" 2>/dev/null; then
  if ! git apply -3 "$P" >/dev/null 2>&1; then
    git reset -q 2>/dev/null; git checkout -q -- . 2>/dev/null
    if ! patch -p1 -s -F3 --no-backup-if-mismatch < "$P"; then
      echo "patch does not apply"; git checkout -q -- .; git clean -fdq -e target; exit 3
    fi
  fi
  git reset -q 2>/dev/null
fi
if grep -rq '^<<<<<<<' --include=*.rs ractor ractor_cluster ractor_cluster_derive 2>/dev/null; then echo "patch does not apply (conflict)"; git checkout -q -- .; git clean -fdq -e target; exit 3; fi
cd - >/dev/null
"$@"; rc=$?
git -C /repo checkout -q -- . ; git -C /repo clean -fdq -e target >/dev/null 2>&1
exit $rc
