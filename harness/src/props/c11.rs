//! C11 — process groups reflect live membership and tell their monitors
//! (E0: sequential model-based; E2/free: linearizable set semantics under exits)

use std::collections::{BTreeMap, BTreeSet};
use std::sync::{Arc, Mutex};

use proptest::prelude::*;
use ractor::verif::{DetachedPorts, LifecycleHandle};
use ractor::{ActorCell, ActorId, SupervisionEvent};
use serde::{Deserialize, Serialize};

use crate::core::{viol, Violation};
use crate::gen;
use crate::props::c07::Dummy;
use crate::runner::*;

pub struct C11E0;

const N_SCOPES: u8 = 3; // 0 = the default scope
const N_GROUPS: u8 = 3;
const ALL: u8 = 9; // "all scopes" sentinel for scope monitors

#[derive(Clone, Debug, PartialEq, Eq, Serialize, Deserialize)]
pub enum POp {
    Join { scope: u8, group: u8, who: Vec<u8> },
    Leave { scope: u8, group: u8, who: Vec<u8> },
    Monitor { group: u8, by: u8 },
    MonitorScope { scope: u8, by: u8 },
    Demonitor { group: u8, by: u8 },
    DemonitorScope { scope: u8, by: u8 },
    /// move the cell to Draining (4) — still a legitimate member
    Drain(u8),
    /// the real exit clean-up
    Exit(u8),
}

#[derive(Clone, Debug, Serialize, Deserialize)]
pub struct Case {
    /// true = remote-id actor
    pub actors: Vec<bool>,
    pub ops: Vec<POp>,
}

pub fn op_strategy(n: u8) -> BoxedStrategy<POp> {
    let who = proptest::collection::vec(gen::idx(n), 1..=3).boxed();
    prop_oneof![
        8 => (gen::idx(N_SCOPES), gen::idx(N_GROUPS), who.clone()).prop_map(|(scope, group, who)| POp::Join { scope, group, who }),
        5 => (gen::idx(N_SCOPES), gen::idx(N_GROUPS), who).prop_map(|(scope, group, who)| POp::Leave { scope, group, who }),
        3 => (gen::idx(N_GROUPS), gen::idx(n)).prop_map(|(group, by)| POp::Monitor { group, by }),
        3 => (prop_oneof![gen::idx(N_SCOPES), Just(ALL)], gen::idx(n)).prop_map(|(scope, by)| POp::MonitorScope { scope, by }),
        1 => (gen::idx(N_GROUPS), gen::idx(n)).prop_map(|(group, by)| POp::Demonitor { group, by }),
        1 => (prop_oneof![gen::idx(N_SCOPES), Just(ALL)], gen::idx(n)).prop_map(|(scope, by)| POp::DemonitorScope { scope, by }),
        1 => gen::idx(n).prop_map(POp::Drain),
        2 => gen::idx(n).prop_map(POp::Exit),
    ]
    .boxed()
}

pub fn strategy(tier: Tier) -> BoxedStrategy<Case> {
    let max_ops = if tier == Tier::Quick { 14 } else { 30 };
    (3u8..=6)
        .prop_flat_map(move |n| (proptest::collection::vec(prop::bool::weighted(0.25), n as usize), proptest::collection::vec(op_strategy(n), 1..=max_ops)))
        .prop_map(|(actors, ops)| Case { actors, ops })
        .boxed()
}

static CASE_NO: std::sync::atomic::AtomicU64 = std::sync::atomic::AtomicU64::new(0);

pub struct World {
    pub prefix: String,
    pub cells: Vec<ActorCell>,
    pub ports: Vec<Mutex<Option<DetachedPorts>>>,
    pub remote: Vec<bool>,
}

impl World {
    pub fn new(actors: &[bool]) -> World {
        let n = CASE_NO.fetch_add(1, std::sync::atomic::Ordering::Relaxed);
        let prefix = format!("c11_{}_{}_", std::process::id(), n);
        let mut cells = vec![];
        let mut ports = vec![];
        for (i, remote) in actors.iter().enumerate() {
            let (c, p) = if *remote {
                ractor::verif::detached_remote_cell::<Dummy>(ActorId::Remote { node_id: 7 + n, pid: i as u64 }).unwrap()
            } else {
                ractor::verif::detached_cell::<Dummy>(None).unwrap()
            };
            ractor::verif::set_status(&c, ractor::ActorStatus::Running);
            cells.push(c);
            ports.push(Mutex::new(Some(p)));
        }
        World { prefix, cells, ports, remote: actors.to_vec() }
    }
    pub fn scope(&self, s: u8) -> String {
        if s == 0 {
            ractor::pg::DEFAULT_SCOPE.to_string()
        } else if s == ALL {
            ractor::pg::ALL_SCOPES_NOTIFICATION.to_string()
        } else {
            format!("{}s{}", self.prefix, s)
        }
    }
    pub fn group(&self, g: u8) -> String {
        format!("{}g{}", self.prefix, g)
    }
    pub fn idx(&self, id: ActorId) -> Option<usize> {
        self.cells.iter().position(|c| c.get_id() == id)
    }
    pub fn cleanup(&self) {
        for c in &self.cells {
            ractor::verif::set_status(c, ractor::ActorStatus::Stopped);
        }
    }
    pub fn exec(&self, op: &POp) {
        let cells = |who: &Vec<u8>| who.iter().map(|a| self.cells[*a as usize].clone()).collect::<Vec<_>>();
        match op {
            POp::Join { scope, group, who } => ractor::pg::join_scoped(self.scope(*scope), self.group(*group), cells(who)),
            POp::Leave { scope, group, who } => ractor::pg::leave_scoped(self.scope(*scope), self.group(*group), cells(who)),
            POp::Monitor { group, by } => ractor::pg::monitor(self.group(*group), self.cells[*by as usize].clone()),
            POp::MonitorScope { scope, by } => ractor::pg::monitor_scope(self.scope(*scope), self.cells[*by as usize].clone()),
            POp::Demonitor { group, by } => ractor::pg::demonitor(self.group(*group), self.cells[*by as usize].get_id()),
            POp::DemonitorScope { scope, by } => ractor::pg::demonitor_scope(self.scope(*scope), self.cells[*by as usize].get_id()),
            POp::Drain(a) => {
                let _ = self.cells[*a as usize].drain();
            }
            POp::Exit(a) => {
                let cell = self.cells[*a as usize].clone();
                if cell.get_status() >= ractor::ActorStatus::Stopping {
                    return;
                }
                let mut h = LifecycleHandle::new(cell.clone());
                h.mark_running();
                h.finish(SupervisionEvent::ActorTerminated(cell, None, None));
            }
        }
    }
    /// read (and consume) the process-group notifications each actor received
    pub fn drain_notifications(&self) -> Vec<Vec<(bool, String, String, Vec<usize>)>> {
        let mut out = vec![];
        for p in &self.ports {
            let mut v = vec![];
            if let Some(p) = p.lock().unwrap().as_mut() {
                while let Some(e) = p.try_recv_supervision() {
                    if let SupervisionEvent::ProcessGroupChanged(ch) = e {
                        let (join, cells) = match &ch {
                            ractor::pg::GroupChangeMessage::Join(_, _, c) => (true, c.clone()),
                            ractor::pg::GroupChangeMessage::Leave(_, _, c) => (false, c.clone()),
                        };
                        v.push((join, ch.get_scope(), ch.get_group(), cells.iter().filter_map(|c| self.idx(c.get_id())).collect()));
                    }
                }
            }
            out.push(v);
        }
        out
    }
}

#[derive(Default, Clone)]
pub struct Model {
    pub status: Vec<u8>,
    pub members: BTreeMap<(u8, u8), BTreeSet<usize>>,
    pub gmon: BTreeMap<u8, BTreeSet<usize>>,
    pub smon: BTreeMap<u8, BTreeSet<usize>>,
}

#[derive(Debug, Clone)]
pub struct Expect {
    to: usize,
    join: bool,
    scope: u8,
    group: u8,
    must: BTreeSet<usize>,
    may: BTreeSet<usize>,
    required: bool,
}

impl Model {
    fn subscribers(&self, scope: u8, group: u8) -> Vec<usize> {
        let mut v = vec![];
        if scope == 0 {
            v.extend(self.gmon.get(&group).into_iter().flatten().copied());
        }
        v.extend(self.smon.get(&scope).into_iter().flatten().copied());
        v.extend(self.smon.get(&ALL).into_iter().flatten().copied());
        v
    }
    fn entry_exists(&self, scope: u8, group: u8) -> bool {
        self.members.get(&(scope, group)).map_or(false, |s| !s.is_empty()) || (scope == 0 && self.gmon.get(&group).map_or(false, |s| !s.is_empty()))
    }
    /// apply `op`, return the notifications it must / may cause
    pub fn apply(&mut self, op: &POp) -> Vec<Expect> {
        let mut ex = vec![];
        match op {
            POp::Join { scope, group, who } => {
                let filtered: BTreeSet<usize> = who.iter().map(|a| *a as usize).filter(|a| self.status[*a] <= 4).collect();
                if filtered.is_empty() {
                    return ex;
                }
                let cur = self.members.entry((*scope, *group)).or_default();
                let eff: BTreeSet<usize> = filtered.difference(cur).copied().collect();
                cur.extend(filtered.iter().copied());
                for to in self.subscribers(*scope, *group) {
                    ex.push(Expect { to, join: true, scope: *scope, group: *group, must: eff.clone(), may: filtered.clone(), required: !eff.is_empty() });
                }
            }
            POp::Leave { scope, group, who } => {
                let exists = self.entry_exists(*scope, *group);
                let set: BTreeSet<usize> = who.iter().map(|a| *a as usize).collect();
                let cur = self.members.entry((*scope, *group)).or_default();
                let eff: BTreeSet<usize> = set.intersection(cur).copied().collect();
                for a in &eff {
                    cur.remove(a);
                }
                if exists {
                    for to in self.subscribers(*scope, *group) {
                        ex.push(Expect { to, join: false, scope: *scope, group: *group, must: eff.clone(), may: set.clone(), required: !eff.is_empty() });
                    }
                }
            }
            POp::Monitor { group, by } => {
                if self.status[*by as usize] <= 4 {
                    self.gmon.entry(*group).or_default().insert(*by as usize);
                }
            }
            POp::MonitorScope { scope, by } => {
                if self.status[*by as usize] <= 4 {
                    self.smon.entry(*scope).or_default().insert(*by as usize);
                }
            }
            POp::Demonitor { group, by } => {
                self.gmon.entry(*group).or_default().remove(&(*by as usize));
            }
            POp::DemonitorScope { scope, by } => {
                self.smon.entry(*scope).or_default().remove(&(*by as usize));
            }
            POp::Drain(a) => {
                let a = *a as usize;
                if self.status[a] < 4 {
                    self.status[a] = 4;
                }
            }
            POp::Exit(a) => {
                let a = *a as usize;
                if self.status[a] >= 5 {
                    return ex;
                }
                self.status[a] = 6;
                for s in self.gmon.values_mut() {
                    s.remove(&a);
                }
                for s in self.smon.values_mut() {
                    s.remove(&a);
                }
                let keys: Vec<(u8, u8)> = self.members.iter().filter(|(_, m)| m.contains(&a)).map(|(k, _)| *k).collect();
                for (scope, group) in keys {
                    self.members.get_mut(&(scope, group)).unwrap().remove(&a);
                    let one: BTreeSet<usize> = [a].into_iter().collect();
                    for to in self.subscribers(scope, group) {
                        ex.push(Expect { to, join: false, scope, group, must: one.clone(), may: one.clone(), required: true });
                    }
                }
            }
        }
        ex
    }
}

fn ids(v: Vec<ActorCell>) -> BTreeSet<ActorId> {
    v.into_iter().map(|c| c.get_id()).collect()
}

/// compare every public query (and the four internal indexes) with the model
pub fn compare_queries(w: &World, m: &Model, after: &str) -> Result<(), Violation> {
    let mut listed_sg: BTreeSet<(u8, u8)> = BTreeSet::new();
    for s in 0..N_SCOPES {
        for g in 0..N_GROUPS {
            let want: BTreeSet<ActorId> = m.members.get(&(s, g)).into_iter().flatten().map(|a| w.cells[*a].get_id()).collect();
            let want_local: BTreeSet<ActorId> = want.iter().filter(|i| i.is_local()).copied().collect();
            let got = ids(ractor::pg::get_scoped_members(&w.scope(s), &w.group(g)));
            if got != want {
                return Err(viol("C11/members-mismatch", format!("after {after}: get_scoped_members(scope {s}, group {g}) = {got:?}, model says {want:?}")));
            }
            let got_local = ids(ractor::pg::get_scoped_local_members(&w.scope(s), &w.group(g)));
            if got_local != want_local {
                return Err(viol("C11/local-members-mismatch", format!("after {after}: get_scoped_local_members(scope {s}, group {g}) = {got_local:?}, model says {want_local:?}")));
            }
            if s == 0 {
                if ids(ractor::pg::get_members(&w.group(g))) != want || ids(ractor::pg::get_local_members(&w.group(g))) != want_local {
                    return Err(viol("C11/default-scope-query-mismatch", format!("after {after}: get_members/get_local_members(group {g}) disagree with the scoped query")));
                }
            }
            if !want.is_empty() {
                listed_sg.insert((s, g));
            }
        }
    }
    let mine = |x: &String| x.starts_with(&w.prefix);
    for s in 0..N_SCOPES {
        let want: BTreeSet<String> = listed_sg.iter().filter(|(ss, _)| *ss == s).map(|(_, g)| w.group(*g)).collect();
        let got: BTreeSet<String> = ractor::pg::which_scoped_groups(&w.scope(s)).into_iter().filter(mine).collect();
        if got != want {
            return Err(viol("C11/which_scoped_groups-mismatch", format!("after {after}: which_scoped_groups(scope {s}) = {got:?}, model says {want:?}")));
        }
    }
    let want_groups: BTreeSet<String> = listed_sg.iter().map(|(_, g)| w.group(*g)).collect();
    let got_groups: BTreeSet<String> = ractor::pg::which_groups().into_iter().filter(mine).collect();
    if got_groups != want_groups {
        return Err(viol("C11/which_groups-mismatch", format!("after {after}: which_groups() = {got_groups:?}, model says {want_groups:?}")));
    }
    let want_scopes: BTreeSet<String> = listed_sg.iter().filter(|(s, _)| *s != 0).map(|(s, _)| w.scope(*s)).collect();
    let got_scopes: BTreeSet<String> = ractor::pg::which_scopes().into_iter().filter(mine).collect();
    if got_scopes != want_scopes {
        return Err(viol("C11/which_scopes-mismatch", format!("after {after}: which_scopes() = {got_scopes:?}, model says {want_scopes:?}")));
    }
    let default_listed = ractor::pg::which_scopes().iter().any(|s| s == ractor::pg::DEFAULT_SCOPE);
    if listed_sg.iter().any(|(s, _)| *s == 0) && !default_listed {
        return Err(viol("C11/which_scopes-mismatch", format!("after {after}: the default scope has members but which_scopes() does not list it")));
    }
    let want_sg: BTreeSet<(String, String)> = listed_sg.iter().map(|(s, g)| (w.scope(*s), w.group(*g))).collect();
    let got_sg: BTreeSet<(String, String)> = ractor::pg::which_scopes_and_groups().into_iter().map(|k| (k.get_scope(), k.get_group())).filter(|(_, g)| mine(g)).collect();
    if got_sg != want_sg {
        return Err(viol("C11/which_scopes_and_groups-mismatch", format!("after {after}: which_scopes_and_groups() = {got_sg:?}, model says {want_sg:?}")));
    }
    // the four internal indexes (hook H4)
    let snap = ractor::pg::verif_snapshot();
    let my_ids: BTreeSet<ActorId> = w.cells.iter().map(|c| c.get_id()).collect();
    for (id, memberships, gmon, wmon) in &snap.actor_relations {
        if !my_ids.contains(id) {
            continue;
        }
        let a = w.idx(*id).unwrap();
        if m.status[a] >= 5 {
            return Err(viol("C11/relations-leaked", format!("after {after}: stopped actor {a} still has a relations entry (memberships {memberships:?}, group monitors {gmon:?}, world monitors {wmon:?})")));
        }
        for (s, g) in memberships {
            let ok = snap.map.iter().any(|((ms, mg), members, _)| ms == s && mg == g && members.contains(id));
            if !ok {
                return Err(viol("C11/index-disagreement", format!("after {after}: actor {a} records membership of ({s},{g}) but the group map does not list it")));
            }
        }
    }
    for ((s, g), members, listeners) in &snap.map {
        if !mine(g) {
            continue;
        }
        for id in members.iter().chain(listeners.iter()) {
            if let Some(a) = w.idx(*id) {
                if m.status[a] >= 5 {
                    return Err(viol("C11/stopped-actor-in-group-map", format!("after {after}: stopped actor {a} is still a member/listener of ({s},{g})")));
                }
            }
        }
        for id in members {
            let rel = snap.actor_relations.iter().find(|(i, ..)| i == id);
            let ok = rel.map_or(false, |(_, ms, _, _)| ms.iter().any(|(rs, rg)| rs == s && rg == g));
            if !ok {
                return Err(viol("C11/index-disagreement", format!("after {after}: ({s},{g}) lists {id} but the actor's relations do not record that membership")));
            }
        }
        let indexed = snap.index.iter().any(|(is, gs)| is == s && gs.contains(g));
        if indexed != !members.is_empty() {
            return Err(viol("C11/index-disagreement", format!("after {after}: group ({s},{g}) has {} members but the per-scope index lists it = {indexed}", members.len())));
        }
    }
    for ((s, g), listeners) in &snap.world_listeners {
        for id in listeners {
            if let Some(a) = w.idx(*id) {
                if m.status[a] >= 5 {
                    return Err(viol("C11/stopped-actor-monitors", format!("after {after}: stopped actor {a} is still a world listener of ({s},{g})")));
                }
            }
        }
    }
    Ok(())
}

pub fn match_notifications(w: &World, expect: &[Expect], got: &[Vec<(bool, String, String, Vec<usize>)>], after: &str) -> Result<(), Violation> {
    for (to, events) in got.iter().enumerate() {
        let mut mine: Vec<&Expect> = expect.iter().filter(|e| e.to == to).collect();
        for (join, scope, group, who) in events {
            let whoset: BTreeSet<usize> = who.iter().copied().collect();
            let pos = mine
                .iter()
                .position(|e| e.join == *join && w.scope(e.scope) == *scope && w.group(e.group) == *group && e.must.is_subset(&whoset) && whoset.is_subset(&e.may));
            match pos {
                Some(p) => {
                    mine.remove(p);
                }
                None => {
                    return Err(viol(
                        "C11/unexpected-notification",
                        format!("after {after}: actor {to} received {} ({scope},{group}) {who:?}, which no subscription of it explains (still expected: {mine:?})", if *join { "Join" } else { "Leave" }),
                    ));
                }
            }
        }
        if let Some(miss) = mine.iter().find(|e| e.required) {
            return Err(viol("C11/missing-notification", format!("after {after}: actor {to} did not receive {miss:?}; it received {events:?}")));
        }
    }
    Ok(())
}

pub fn run_e0(case: &Case, want_trace: bool) -> Outcome {
    let w = World::new(&case.actors);
    let mut m = Model { status: vec![2; case.actors.len()], ..Default::default() };
    let mut trace = vec![];
    let mut labels = BTreeSet::new();
    let mut nontrivial = false;
    let mut result = Ok(());
    for (i, op) in case.ops.iter().enumerate() {
        w.exec(op);
        let expect = m.apply(op);
        let got = w.drain_notifications();
        let after = format!("op #{i} {op:?}");
        if want_trace {
            trace.push(format!("{after} -> notifications {got:?}"));
        }
        if expect.iter().any(|e| e.required) {
            labels.insert("notified".to_string());
        }
        if let POp::Exit(a) = op {
            if expect.iter().any(|e| e.required) || m.members.values().any(|s| !s.is_empty()) {
                nontrivial = true;
            }
            let _ = a;
        }
        result = match_notifications(&w, &expect, &got, &after).and_then(|_| compare_queries(&w, &m, &after));
        if result.is_err() {
            break;
        }
    }
    w.cleanup();
    if result.is_ok() {
        // after the final clean-up nothing of this case may remain anywhere
        let mut fin = m.clone();
        fin.status = vec![6; case.actors.len()];
        fin.members.clear();
        let _ = w.drain_notifications();
        result = compare_queries(&w, &fin, "final clean-up");
    }
    if case.actors.iter().any(|r| *r) {
        labels.insert("remote-members".into());
    }
    match result {
        Err(v) => Outcome { verdict: Verdict::Fail(v), nontrivial: false, labels: vec![], trace },
        Ok(()) => Outcome { verdict: Verdict::Pass, nontrivial, labels: labels.into_iter().collect(), trace },
    }
}

impl Part for C11E0 {
    type Case = Case;
    const PROP: &'static str = "C11";
    const PART: &'static str = "e0";
    fn cases(tier: Tier) -> u32 {
        match tier {
            Tier::Quick => 40_000,
            Tier::Thorough => 1_000_000,
        }
    }
    fn strategy(tier: Tier) -> BoxedStrategy<Case> {
        strategy(tier)
    }
    fn run(case: &Case, want_trace: bool) -> Outcome {
        run_e0(case, want_trace)
    }
    fn rule() -> &'static str {
        "sequential model-based: generated histories (1-14 ops, thorough 30) over 3-6 detached cells (local and remote-id; Running, Draining, or exited through the real lifecycle clean-up), 3 scopes x 3 groups: join/leave(_scoped) with duplicate actors and repeats, monitor / monitor_scope / all-scopes / demonitor*, drain, exit; after every op all eight public queries and the four internal indexes (hook H4) are compared with a set model, and every actor's supervision port is read and matched against the notifications the model demands (one per active subscription for every effective join/leave, exactly one Leave per group on exit, nothing for non-subscribers, payload between the effective and the supplied actors); non-trivial = an exit happened while groups were populated or monitored"
    }
}

// =====================================================================================
// E2 / free-running parts

use crate::e2::{run_threads, run_threads_free, E2Run, Rec, Sched, ThreadCtx};

#[derive(Clone, Debug, Serialize, Deserialize)]
pub struct Case2 {
    pub actors: Vec<bool>,
    pub programs: Vec<Vec<POp>>,
    pub schedule: Vec<u8>,
}

fn exec2(w: &World, _ctx: &ThreadCtx, _tid: usize, op: &POp) -> () {
    w.exec(op)
}

pub fn strategy2() -> BoxedStrategy<Case2> {
    (2u8..=4)
        .prop_flat_map(|n| {
            let who = proptest::collection::vec(gen::idx(n), 1..=2).boxed();
            let op = prop_oneof![
                8 => (gen::idx(2), gen::idx(2), who.clone()).prop_map(|(scope, group, who)| POp::Join { scope, group, who }),
                4 => (gen::idx(2), gen::idx(2), who).prop_map(|(scope, group, who)| POp::Leave { scope, group, who }),
                2 => (gen::idx(2), gen::idx(n)).prop_map(|(group, by)| POp::Monitor { group, by }),
                2 => (prop_oneof![gen::idx(2), Just(ALL)], gen::idx(n)).prop_map(|(scope, by)| POp::MonitorScope { scope, by }),
                5 => gen::idx(n).prop_map(POp::Exit),
            ];
            (Just(n), proptest::collection::vec(proptest::collection::vec(op, 1..=3), 2..=4), gen::schedule(64))
        })
        .prop_map(|(n, mut programs, schedule)| {
            let mut total = 0;
            for p in programs.iter_mut() {
                let room = 8usize.saturating_sub(total);
                p.truncate(room.max(1).min(p.len()));
                total += p.len();
            }
            Case2 { actors: vec![false; n as usize], programs, schedule }
        })
        .boxed()
}

fn final_state_explained(case: &Case2, recs: &[Rec<()>], actual: &BTreeMap<(u8, u8), BTreeSet<usize>>) -> bool {
    let ops: Vec<(&POp, &Rec<()>)> = recs.iter().map(|r| (&case.programs[r.tid][r.idx], r)).collect();
    let n = ops.len();
    fn dfs(ops: &[(&POp, &Rec<()>)], done: &mut Vec<bool>, m: &Model, left: usize, actual: &BTreeMap<(u8, u8), BTreeSet<usize>>) -> bool {
        if left == 0 {
            let mut a = actual.clone();
            a.retain(|_, v| !v.is_empty());
            let mut b = m.members.clone();
            b.retain(|_, v| !v.is_empty());
            return a == b;
        }
        for i in 0..ops.len() {
            if done[i] {
                continue;
            }
            if !(0..ops.len()).all(|j| done[j] || j == i || !(ops[j].1.end < ops[i].1.start)) {
                continue;
            }
            let mut next = m.clone();
            let _ = next.apply(ops[i].0);
            done[i] = true;
            if dfs(ops, done, &next, left - 1, actual) {
                return true;
            }
            done[i] = false;
        }
        false
    }
    let m = Model { status: vec![2; case.actors.len()], ..Default::default() };
    dfs(&ops, &mut vec![false; n], &m, n, actual)
}

fn judge2(case: &Case2, w: &World, run: &E2Run<()>) -> Result<(bool, Vec<String>), Violation> {
    // actual final membership
    let mut actual: BTreeMap<(u8, u8), BTreeSet<usize>> = BTreeMap::new();
    for s in 0..N_SCOPES {
        for g in 0..N_GROUPS {
            let got: BTreeSet<usize> = ractor::pg::get_scoped_members(&w.scope(s), &w.group(g)).iter().filter_map(|c| w.idx(c.get_id())).collect();
            if !got.is_empty() {
                actual.insert((s, g), got);
            }
        }
    }
    let exited: BTreeSet<usize> = run.recs.iter().filter_map(|r| if let POp::Exit(a) = &case.programs[r.tid][r.idx] { Some(*a as usize) } else { None }).collect();
    // stopped actors: member of nothing, monitor of nothing, no relations entry; indexes agree
    let mut m = Model { status: vec![2; case.actors.len()], ..Default::default() };
    for a in &exited {
        m.status[*a] = 6;
    }
    for (k, set) in &actual {
        for a in set {
            if exited.contains(a) {
                return Err(viol("C11/stopped-actor-is-member", format!("actor {a} exited (its exit call returned) but is still a member of (scope {}, group {})", k.0, k.1)));
            }
        }
    }
    m.members = actual.clone();
    compare_queries(w, &m, "all threads finished")?;
    if !final_state_explained(case, &run.recs, &actual) {
        return Err(viol(
            "C11/not-linearizable",
            format!(
                "final membership {actual:?} is not the result of the join/leave/exit calls in any order consistent with their real-time order: {:?}",
                run.recs.iter().map(|r| format!("t{}:{:?}[{}..{}]", r.tid, case.programs[r.tid][r.idx], r.start, r.end)).collect::<Vec<_>>()
            ),
        ));
    }
    // non-trivial: an exit interval overlaps a join/monitor interval that names the same actor
    let mut nt = false;
    for a in &run.recs {
        if let POp::Exit(x) = &case.programs[a.tid][a.idx] {
            for b in &run.recs {
                if a.tid != b.tid && a.start < b.end && b.start < a.end {
                    let names = match &case.programs[b.tid][b.idx] {
                        POp::Join { who, .. } => who.contains(x),
                        POp::Monitor { by, .. } | POp::MonitorScope { by, .. } => by == x,
                        _ => false,
                    };
                    if names {
                        nt = true;
                    }
                }
            }
        }
    }
    Ok((nt && run.preemptions > 0, vec![]))
}

pub fn run_case2(case: &Case2, want_trace: bool, sched: Option<Sched>, spin: &[u32]) -> (Outcome, Vec<(usize, usize)>) {
    let w = Arc::new(World::new(&case.actors));
    let run = match sched {
        Some(s) => run_threads(w.clone(), case.programs.clone(), s, exec2),
        None => run_threads_free(w.clone(), case.programs.clone(), spin.to_vec(), exec2),
    };
    let r = judge2(case, &w, &run);
    w.cleanup();
    let trace = if want_trace { run.recs.iter().map(|r| format!("thread {} op {} {:?} [{}..{}]", r.tid, r.idx, case.programs[r.tid][r.idx], r.start, r.end)).collect() } else { vec![] };
    let log = run.choice_log.clone();
    let o = match r {
        Err(v) => Outcome { verdict: Verdict::Fail(v), nontrivial: false, labels: vec![], trace },
        Ok((nt, labels)) => Outcome { verdict: Verdict::Pass, nontrivial: nt, labels, trace },
    };
    (o, log)
}

pub struct C11E2;
impl Part for C11E2 {
    type Case = Case2;
    const PROP: &'static str = "C11";
    const PART: &'static str = "e2";
    fn cases(tier: Tier) -> u32 {
        match tier {
            Tier::Quick => 30_000,
            Tier::Thorough => 1_000_000,
        }
    }
    fn strategy(_tier: Tier) -> BoxedStrategy<Case2> {
        strategy2()
    }
    fn run(case: &Case2, want_trace: bool) -> Outcome {
        run_case2(case, want_trace, Some(Sched::Bytes(case.schedule.clone())), &[]).0
    }
    fn rule() -> &'static str {
        "2-4 controlled OS threads issue <=8 join/leave/monitor/monitor_scope calls on 2 scopes x 2 groups over 2-4 detached cells while other threads run the cells' real exit clean-up; preemption at every verif_point! in pg.rs and set_status; oracle at the end: an exited actor is a member and a monitor of nothing (public queries + the four internal indexes agree, no relations entry), and the final membership is the result of the calls in some order consistent with their real-time order (brute force); non-trivial = an exit overlaps a join/monitor naming the same actor with >=1 preemption"
    }
}

#[derive(Clone, Debug, Serialize, Deserialize)]
pub struct XCase2 {
    pub programs: Vec<Vec<POp>>,
    pub choices: Vec<usize>,
    pub max_preempt: u32,
}

pub struct C11E2X;
impl Part for C11E2X {
    type Case = XCase2;
    const PROP: &'static str = "C11";
    const PART: &'static str = "e2-exhaustive";
    const EXHAUSTIVE: bool = true;
    fn cases(_tier: Tier) -> u32 {
        0
    }
    fn strategy(_tier: Tier) -> BoxedStrategy<XCase2> {
        Just(XCase2 { programs: vec![], choices: vec![], max_preempt: 0 }).boxed()
    }
    fn enumerate(tier: Tier, visit: &mut dyn FnMut(&XCase2, Outcome) -> bool) {
        let bound = if tier == Tier::Quick { 2 } else { 3 };
        let j = |who: Vec<u8>| POp::Join { scope: 0, group: 0, who };
        let progs = vec![
            vec![vec![j(vec![0])], vec![POp::Exit(0)]],
            vec![vec![j(vec![0, 1])], vec![POp::Exit(0)], vec![POp::Exit(1)]],
            vec![vec![POp::Monitor { group: 0, by: 0 }], vec![POp::Exit(0)]],
            vec![vec![POp::MonitorScope { scope: 1, by: 0 }, j(vec![1])], vec![POp::Exit(0)]],
            vec![vec![j(vec![0]), POp::Leave { scope: 0, group: 0, who: vec![0] }], vec![j(vec![0])], vec![POp::Exit(0)]],
        ];
        for programs in progs {
            let case = Case2 { actors: vec![false; 2], programs: programs.clone(), schedule: vec![] };
            let (_n, complete) = crate::e2::enumerate_schedules(2_000_000, |choices| {
                let (mut o, log) = run_case2(&case, false, Some(Sched::Explicit(choices.clone(), Some(bound))), &[]);
                o.nontrivial = log.iter().any(|c| c.0 != 0);
                let xc = XCase2 { programs: programs.clone(), choices: log.iter().map(|c| c.0).collect(), max_preempt: bound };
                if !visit(&xc, o) {
                    return vec![];
                }
                log
            });
            if !complete {
                return;
            }
        }
    }
    fn run(case: &XCase2, want_trace: bool) -> Outcome {
        let c = Case2 { actors: vec![false; 2], programs: case.programs.clone(), schedule: vec![] };
        let mut o = run_case2(&c, want_trace, Some(Sched::Explicit(case.choices.clone(), Some(case.max_preempt))), &[]).0;
        o.nontrivial = case.choices.iter().any(|c| *c != 0);
        o
    }
    fn rule() -> &'static str {
        "bounded exhaustive generation: every schedule with at most 2 (quick) / 3 (thorough) preemptions of five small programs ({join|exit}, {join[a,b]|exit a|exit b}, {monitor|exit}, {monitor_scope;join|exit}, {join;leave|join|exit}); same oracle as part e2"
    }
}

#[derive(Clone, Debug, Serialize, Deserialize)]
pub struct FreeCase2 {
    pub case: Case2,
    pub spin: Vec<u32>,
    pub rounds: u16,
}

pub struct C11Free;
impl Part for C11Free {
    type Case = FreeCase2;
    const PROP: &'static str = "C11";
    const PART: &'static str = "free";
    const DETERMINISTIC: bool = false;
    fn cases(tier: Tier) -> u32 {
        match tier {
            Tier::Quick => 1_600,
            Tier::Thorough => 60_000,
        }
    }
    fn strategy(_tier: Tier) -> BoxedStrategy<FreeCase2> {
        (strategy2(), proptest::collection::vec(0u32..800, 4)).prop_map(|(case, spin)| FreeCase2 { case, spin, rounds: 15 }).boxed()
    }
    fn run(fc: &FreeCase2, want_trace: bool) -> Outcome {
        let mut nontrivial = false;
        for _ in 0..fc.rounds {
            let (o, _) = run_case2(&fc.case, want_trace, None, &fc.spin);
            match o.verdict {
                Verdict::Fail(mut v) => {
                    v.msg = format!("(free-running threads; observed history) {}", v.msg);
                    return Outcome { verdict: Verdict::Fail(v), nontrivial: false, labels: vec![], trace: o.trace };
                }
                _ => nontrivial |= o.nontrivial,
            }
        }
        Outcome { verdict: Verdict::Pass, nontrivial, labels: vec![], trace: vec![] }
    }
    fn rule() -> &'static str {
        "the programs of part e2 on free-running OS threads (barrier start, generated busy-wait offsets, 15 rounds per case); same oracle; non-trivial = an exit interval overlapped a join/monitor interval naming the same actor"
    }
}
