//! proptest strategies shared by the property modules

use proptest::prelude::*;

use crate::core::*;

pub fn idx(n: u8) -> impl Strategy<Value = u8> {
    // monotone mapping so that shrinking moves towards 0
    (0u16..=u16::MAX).prop_map(move |i| ((i as u32 * n as u32) >> 16) as u8)
}

pub fn schedule(max: usize) -> BoxedStrategy<Vec<u8>> {
    proptest::collection::vec(any::<u8>(), 0..=max).boxed()
}

/// actions that never fail or exit
pub fn benign_act(n_actors: u8, n_groups: u8) -> BoxedStrategy<Act> {
    prop_oneof![
        4 => Just(Act::Yield),
        2 => (0u16..4).prop_map(Act::Sleep),
        2 => Just(Act::SendSelf),
        1 => idx(n_actors).prop_map(Act::SendTo),
        1 => idx(n_groups.max(1)).prop_map(Act::Join),
        1 => idx(n_groups.max(1)).prop_map(Act::Leave),
    ]
    .boxed()
}

pub fn any_act(n_actors: u8, n_groups: u8) -> BoxedStrategy<Act> {
    any_act_w(n_actors, n_groups, 12)
}

/// `benign_w` : 5 is the odds of a benign action against the five exit/failure actions
pub fn any_act_w(n_actors: u8, n_groups: u8, benign_w: u32) -> BoxedStrategy<Act> {
    prop_oneof![
        benign_w => benign_act(n_actors, n_groups),
        1 => Just(Act::Panic),
        1 => Just(Act::Fail),
        1 => Just(Act::StopSelf),
        1 => Just(Act::KillSelf),
        1 => Just(Act::DrainSelf),
    ]
    .boxed()
}

pub fn script(act: BoxedStrategy<Act>, max: usize) -> BoxedStrategy<Vec<Act>> {
    proptest::collection::vec(act, 0..=max).boxed()
}

pub fn variant_any() -> BoxedStrategy<Variant> {
    prop_oneof![
        Just(Variant::Spawn),
        Just(Variant::Linked),
        Just(Variant::Instant),
        Just(Variant::LinkedInstant),
        Just(Variant::TlSpawn),
        Just(Variant::TlLinked),
        Just(Variant::TlInstant),
        Just(Variant::TlLinkedInstant),
    ]
    .boxed()
}

pub fn timeout_ms() -> BoxedStrategy<Option<u16>> {
    prop_oneof![Just(None), (1u16..50).prop_map(Some)].boxed()
}
