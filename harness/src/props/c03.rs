//! C03 — kill > stop > supervision > messages; stop graceful, kill immediate (E1)

use proptest::prelude::*;

use crate::core::*;
use crate::gate::DriveEnd;
use crate::gen;
use crate::runner::*;

pub struct C03;

fn await_act() -> BoxedStrategy<Act> {
    prop_oneof![4 => Just(Act::Yield), 2 => (0u16..3).prop_map(Act::Sleep), 1 => Just(Act::SendSelf)].boxed()
}

fn handler_script() -> BoxedStrategy<Vec<Act>> {
    let act = prop_oneof![
        30 => await_act(),
        1 => Just(Act::KillSelf),
        1 => Just(Act::StopSelf),
    ];
    proptest::collection::vec(act, 0..=4).boxed()
}

pub fn scenario_strategy(tier: Tier) -> BoxedStrategy<Scenario> {
    let max_sched = if tier == Tier::Quick { 96 } else { 192 };
    let recv_variant = prop_oneof![3 => Just(Variant::Spawn), 2 => Just(Variant::TlSpawn), 1 => Just(Variant::Instant), 1 => Just(Variant::TlInstant)];
    let child_variant = prop_oneof![Just(Variant::Linked), Just(Variant::TlLinked)];
    let feed_op = prop_oneof![
        6 => (0u32..1000).prop_map(|seq| Op::Cast { to: 0, seq }),
        3 => prop_oneof![3 => Just(SupKind::Terminated), 2 => Just(SupKind::Failed), 1 => Just(SupKind::Started)].prop_map(|kind| Op::NotifySup { child: 1, kind }),
        2 => Just(Op::Yield),
    ];
    let disturb = prop_oneof![3 => Just(Op::Kill(0)), 3 => Just(Op::Stop(0)), 1 => Just(Op::StopReason(0)), 1 => Just(Op::Drain(0))];
    (
        (recv_variant, child_variant),
        (
            proptest::collection::vec(await_act(), 0..=2),
            proptest::collection::vec(await_act(), 0..=2),
            proptest::collection::vec(await_act(), 0..=3),
            proptest::collection::vec(handler_script(), 1..=3),
            proptest::collection::vec(handler_script(), 1..=2),
            prop::bool::weighted(0.2),
        ),
        proptest::collection::vec(feed_op.clone(), 0..=8),
        (0usize..12, disturb, proptest::collection::vec(feed_op.clone(), 0..=3)),
        proptest::collection::vec(feed_op, 0..=5),
        gen::schedule(max_sched),
    )
        .prop_map(|((rv, cv), (pre, post, stop, handle, sup, sup_stops), feed, (delay, disturb, after), feed2, schedule)| {
            let recv = ActorSpec {
                variant: Some(rv),
                pre_start: pre,
                post_start: post,
                post_stop: stop,
                handle,
                sup,
                sup_stops,
                ..Default::default()
            };
            let child = ActorSpec { variant: Some(cv), parent: Some(0), ..Default::default() };
            let mut c0 = vec![Op::Spawn(0)];
            if rv.is_instant() {
                // sometimes feed the mailbox before the actor even started
                c0.push(Op::Cast { to: 0, seq: 5000 });
                c0.push(Op::AwaitStart(0));
            }
            c0.push(Op::Spawn(1));
            c0.extend(feed);
            let mut c1 = vec![Op::Yield; delay];
            c1.push(disturb);
            c1.extend(after);
            Scenario { specs: vec![recv, child], clients: vec![c0, c1, feed2], schedule }
        })
        .boxed()
}

fn arrival_class(tr: &[Event], pos: usize, a: usize) -> &'static str {
    let mut open: Option<Cb> = None;
    let mut seen_any = false;
    for e in &tr[..pos] {
        match &e.ev {
            Ev::Enter { a: x, cb, .. } if *x == a => {
                open = Some(*cb);
                seen_any = true;
            }
            Ev::Exit { a: x, .. } | Ev::Unwind { a: x, .. } if *x == a => open = None,
            _ => {}
        }
    }
    match open {
        Some(Cb::PreStart) => "during-pre_start",
        Some(Cb::PostStart) => "during-post_start",
        Some(Cb::Handle) => "during-handle",
        Some(Cb::Sup) => "during-supervision",
        Some(Cb::PostStop) => "during-post_stop",
        None => {
            if seen_any {
                "idle"
            } else {
                "before-start"
            }
        }
    }
}

pub fn check(sc: &Scenario, ex: &Exec) -> Result<(bool, Vec<String>), Violation> {
    let tr = &ex.trace;
    let a = 0usize;
    let op_of = |c: usize, i: usize| sc.clients.get(c).and_then(|ops| ops.get(i));
    let mut k_at: Option<usize> = None;
    let mut s_at: Option<usize> = None;
    let mut labels = vec![];
    let mut handled = 0u64;
    let mut bad_exit = false;
    let mut post_stop_entered = false;
    // (reason, injected-at position)
    let mut injected: Vec<(String, usize)> = vec![];
    let mut pending_msgs_ok = 0i64;
    let mut nontrivial = false;
    for (pos, e) in tr.iter().enumerate() {
        match &e.ev {
            Ev::OpEnd { c, i, res } if *res != Res::Skipped => match op_of(*c, *i) {
                Some(Op::Kill(0)) => {
                    if k_at.is_none() {
                        k_at = Some(pos);
                        labels.push(format!("kill:{}", arrival_class(tr, pos, a)));
                        if pending_msgs_ok > 0 || injected.iter().any(|(r, _)| !tr[..pos].iter().any(|x| sup_reason_is(&x.ev, r))) {
                            nontrivial = true;
                        }
                    }
                }
                Some(Op::Stop(0)) | Some(Op::StopReason(0)) => {
                    if s_at.is_none() {
                        s_at = Some(pos);
                        labels.push(format!("stop:{}", arrival_class(tr, pos, a)));
                        if pending_msgs_ok > 0 {
                            nontrivial = true;
                        }
                    }
                }
                Some(Op::Cast { to: 0, .. }) if *res == Res::Ok => pending_msgs_ok += 1,
                Some(Op::NotifySup { kind, .. }) if *kind != SupKind::Started => injected.push((format!("syn-{c}-{i}"), pos)),
                _ => {}
            },
            Ev::Note(n) if n.starts_with("inject-kill-returned") => {
                if k_at.is_none() {
                    k_at = Some(pos);
                    labels.push(format!("kill:{}", n.trim_start_matches("inject-kill-returned ")));
                    nontrivial = true;
                }
            }
            Ev::ActSend { to, res, .. } if *to == a && *res == Res::Ok => pending_msgs_ok += 1,
            Ev::ActDone { a: x, what, .. } if *x == a && what == "kill_self" => {
                if k_at.is_none() {
                    k_at = Some(pos);
                    labels.push("kill:self".into());
                }
            }
            Ev::ActDone { a: x, what, .. } if *x == a && what == "stop_self" => {
                if s_at.is_none() {
                    s_at = Some(pos);
                    labels.push("stop:self".into());
                }
            }
            Ev::Enter { a: x, cb, tag } if *x == a => {
                if let Some(k) = k_at {
                    return Err(viol(
                        "C03/enter-after-kill",
                        format!("{cb:?} of actor {a} entered at #{pos} although kill() had returned at #{k}"),
                    ));
                }
                match cb {
                    Cb::Handle | Cb::Sup => {
                        if let Some(s) = s_at {
                            return Err(viol(
                                format!("C03/{}-after-stop", if *cb == Cb::Handle { "handle" } else { "supervision" }),
                                format!("{cb:?} of actor {a} entered at #{pos} although stop() had returned at #{s}"),
                            ));
                        }
                        if *cb == Cb::Handle {
                            handled += 1;
                            pending_msgs_ok -= 1;
                            // supervision before messages: every synthetic event injected in an earlier
                            // step and delivered at all must have been handled already
                            for (r, q) in &injected {
                                if tr[*q].step < e.step {
                                    let first = tr.iter().position(|x| sup_reason_is(&x.ev, r));
                                    if let Some(f) = first {
                                        if f > pos {
                                            return Err(viol(
                                                "C03/message-before-pending-supervision",
                                                format!("message handler entered at #{pos} while supervision event {r} (injected at #{q}) was still pending; it was handled only at #{f}"),
                                            ));
                                        }
                                    }
                                }
                            }
                        }
                    }
                    Cb::PostStop => {
                        post_stop_entered = true;
                        if let Tag::Fwd { v } = tag {
                            if *v != handled {
                                return Err(viol("C03/post_stop-stale-state", format!("post_stop saw handled={v} but {handled} handlers had run")));
                            }
                        }
                    }
                    _ => {}
                }
            }
            Ev::Resumed { a: x, cb } if *x == a => {
                if let Some(k) = k_at {
                    return Err(viol(
                        "C03/progress-after-kill",
                        format!("{cb:?} of actor {a} resumed past a suspension point at #{pos} although kill() had returned at #{k}"),
                    ));
                }
            }
            Ev::Exit { a: x, ok, .. } if *x == a => {
                if !ok {
                    bad_exit = true;
                }
            }
            Ev::Unwind { a: x, .. } if *x == a => bad_exit = true,
            _ => {}
        }
    }
    // graceful stop ends in post_stop (judged on the prefix before the final sweep)
    if let Some(s) = s_at {
        if s < ex.cut && k_at.is_none() && !bad_exit && ex.end_main == DriveEnd::Done {
            let started_ok = tr.iter().any(|e| matches!(&e.ev, Ev::Exit { a: 0, cb: Cb::PostStart, ok: true }));
            let ps_before_cut = tr[..ex.cut].iter().any(|e| matches!(&e.ev, Ev::Enter { a: 0, cb: Cb::PostStop, .. }));
            let aborted = sc.clients.iter().flatten().any(|o| matches!(o, Op::AbortTask(_)));
            if started_ok && !ps_before_cut && !aborted {
                return Err(viol("C03/no-post_stop-after-stop", format!("stop() returned at #{s}, nothing killed or failed the actor, but post_stop never ran")));
            }
            labels.push("graceful-stop-checked".into());
        }
    }
    let _ = post_stop_entered;
    Ok((nontrivial, labels))
}

fn sup_reason_is(ev: &Ev, r: &str) -> bool {
    match ev {
        Ev::Enter { a: 0, cb: Cb::Sup, tag: Tag::Terminated { reason: Some(x), .. } } => x == r,
        Ev::Enter { a: 0, cb: Cb::Sup, tag: Tag::Failed { text, .. } } => text == r,
        _ => false,
    }
}

impl Part for C03 {
    type Case = Scenario;
    const PROP: &'static str = "C03";
    const PART: &'static str = "e1";
    fn cases(tier: Tier) -> u32 {
        match tier {
            Tier::Quick => 200_000,
            Tier::Thorough => 3_000_000,
        }
    }
    fn strategy(tier: Tier) -> BoxedStrategy<Scenario> {
        scenario_strategy(tier)
    }
    fn run(case: &Scenario, want_trace: bool) -> Outcome {
        let ex = exec_scenario(case, ExecOpts::default(), |_, _, _| {}, |_| vec![]);
        let trace = if want_trace { fmt_trace(&ex.trace) } else { vec![] };
        if let Some(p) = &ex.client_panic {
            return Outcome { verdict: Verdict::Fail(viol("C03/client-panic", p.clone())), nontrivial: false, labels: vec![], trace };
        }
        match check(case, &ex) {
            Err(v) => Outcome { verdict: Verdict::Fail(v), nontrivial: false, labels: vec![], trace },
            Ok((nontrivial, labels)) => {
                if ex.end_main == DriveEnd::Budget || ex.end_sweep == DriveEnd::Budget {
                    return Outcome { verdict: Verdict::Inconclusive("step budget".into()), nontrivial: false, labels, trace };
                }
                if ex.end_main == DriveEnd::Stuck || ex.end_sweep == DriveEnd::Stuck {
                    return Outcome { verdict: Verdict::Fail(viol("C03/stuck", format!("main={:?} sweep={:?}", ex.end_main, ex.end_sweep))), nontrivial, labels, trace };
                }
                Outcome { verdict: Verdict::Pass, nontrivial, labels, trace }
            }
        }
    }
    fn rule() -> &'static str {
        "generated receiver (Send/thread-local, instant or not) with scripted awaits in every callback, pre-loaded mailbox and synthetic supervision events via child.notify_supervisor, a disturber issuing kill/stop/drain after a generated delay, schedule bytes; non-trivial = the kill/stop returned while >=1 accepted message or injected supervision event was still unhandled; labels give the arrival-point histogram"
    }
}

// ---------------------------------------------------------------------------------
// intra-poll injection: a kill that lands between the moment the actor picked its next piece of
// work and the first poll of the callback. On E1 a poll of the actor task is atomic, so a client
// task can never place a kill there; the `loop:picked_*` schedule points (hook H2) let the case
// do it from inside the poll, which is what a second OS thread does on a multi-threaded runtime.

#[derive(Clone, Debug, serde::Serialize, serde::Deserialize)]
pub struct InjCase {
    pub sc: Scenario,
    pub label: u8,
    pub nth: u8,
}

const INJ_LABELS: [&str; 4] = ["loop:picked_message", "loop:picked_supervision", "loop:picked_stop", "loop:picked_drain"];

struct InjHook {
    world: std::sync::Arc<World>,
    label: &'static str,
    nth: u32,
    count: std::sync::atomic::AtomicU32,
    fired: std::sync::atomic::AtomicBool,
}

impl ractor::verif::PointHook for InjHook {
    fn point(&self, label: &'static str) {
        use std::sync::atomic::Ordering::SeqCst;
        if label != self.label || self.fired.load(SeqCst) {
            return;
        }
        if self.count.fetch_add(1, SeqCst) != self.nth {
            return;
        }
        if let Some(c) = self.world.cell(0) {
            self.fired.store(true, SeqCst);
            log(Ev::Note(format!("inject-kill at {label}")));
            c.kill();
            log(Ev::Note(format!("inject-kill-returned injected-at-{}", label.trim_start_matches("loop:"))));
        }
    }
}

pub struct C03Inject;

impl Part for C03Inject {
    type Case = InjCase;
    const PROP: &'static str = "C03";
    const PART: &'static str = "e1-intra-poll";
    fn cases(tier: Tier) -> u32 {
        match tier {
            Tier::Quick => 60_000,
            Tier::Thorough => 1_500_000,
        }
    }
    fn strategy(tier: Tier) -> BoxedStrategy<InjCase> {
        (scenario_strategy(tier), prop_oneof![5 => Just(0u8), 3 => Just(1u8), 2 => Just(2u8), 1 => Just(3u8)], 0u8..4, any::<bool>())
            .prop_map(|(mut sc, label, nth, instant)| {
                // the loop points exist in the Send actor loop
                sc.specs[0].variant = Some(if instant { Variant::Instant } else { Variant::Spawn });
                InjCase { sc, label, nth }
            })
            .boxed()
    }
    fn run(case: &InjCase, want_trace: bool) -> Outcome {
        let label = INJ_LABELS[case.label as usize % INJ_LABELS.len()];
        let nth = case.nth as u32;
        let installed = std::cell::Cell::new(false);
        let ex = exec_scenario(
            &case.sc,
            ExecOpts::default(),
            move |w, _, _| {
                if !installed.get() {
                    installed.set(true);
                    ractor::verif::install_point_hook(Some(std::sync::Arc::new(InjHook { world: w.clone(), label, nth, count: Default::default(), fired: Default::default() })));
                }
            },
            |_| vec![],
        );
        ractor::verif::install_point_hook(None);
        let trace = if want_trace { fmt_trace(&ex.trace) } else { vec![] };
        if let Some(p) = &ex.client_panic {
            return Outcome { verdict: Verdict::Fail(viol("C03/client-panic", p.clone())), nontrivial: false, labels: vec![], trace };
        }
        let fired = ex.trace.iter().any(|e| matches!(&e.ev, Ev::Note(n) if n.starts_with("inject-kill-returned")));
        match check(&case.sc, &ex) {
            Err(v) => Outcome { verdict: Verdict::Fail(v), nontrivial: false, labels: vec![], trace },
            Ok((_, labels)) => {
                if ex.end_main == DriveEnd::Budget || ex.end_sweep == DriveEnd::Budget {
                    return Outcome { verdict: Verdict::Inconclusive("step budget".into()), nontrivial: false, labels, trace };
                }
                if ex.end_main == DriveEnd::Stuck || ex.end_sweep == DriveEnd::Stuck {
                    return Outcome { verdict: Verdict::Fail(viol("C03/stuck", format!("main={:?} sweep={:?}", ex.end_main, ex.end_sweep))), nontrivial: fired, labels, trace };
                }
                Outcome { verdict: Verdict::Pass, nontrivial: fired, labels, trace }
            }
        }
    }
    fn rule() -> &'static str {
        "the e1 generator restricted to Send receivers, plus one injected kill() executed from inside the actor task's own poll at the n-th passage (n in 0..3) of a generated schedule point right after the actor picked its next piece of work (message, supervision event, stop, drain marker) and before the callback's first poll — the window a second OS thread has on a multi-threaded runtime and a client task on the single-threaded gate never has; same oracle (no callback starts and none progresses after kill() returned); non-trivial = the injection point was reached"
    }
}
