#!/bin/bash
# usage: sweep.sh <quick|thorough> <seed> [ID ...]
# Builds the harness ONCE (from the directory this script lives in, into that directory's own target
# dirs) and runs the given properties (default: all) without rebuilding in between, with evidence
# and replay files written under that directory (VERIF_DIR), not under /verif. Meant for
# `vp run -- tools/sweep.sh thorough 7` from a snapshot: exploration only, never evidence.
set -u
ROOT="$(cd "$(dirname "$0")/.." && pwd)"
TIER="${1:-quick}"; SEED="${2:-1}"; shift; shift
IDS="$*"; [ -z "$IDS" ] && IDS="C01 C02 C03 C04 C05 C06 C07 C08 C09 C10 C11 C12 C13 C14 C15 C16 C17 C18 C19 C20"
export CARGO_NET_OFFLINE=true VERIF_DIR="$ROOT"
cd "$ROOT/harness" || exit 2
mkdir -p bin
cargo build --release --target-dir "$ROOT/harness/target" >/dev/null 2>&1 || { echo "build failed"; exit 2; }
cargo build --release --features async-trait --target-dir "$ROOT/harness/target-at" >/dev/null 2>&1 && cp -f target-at/release/rv bin/rv-at
cargo build --release --features v2 --target-dir "$ROOT/harness/target-v2" >/dev/null 2>&1 && cp -f target-v2/release/rv bin/rv-v2
cp -f "$ROOT/known-findings.json" "$ROOT/known-findings.json" 2>/dev/null
for id in $IDS; do
  s=$(date +%s)
  out=$(./target/release/rv run "$id" --tier "$TIER" --seed "$SEED" 2>&1); rc=$?
  echo "$out" | grep -a -E "VIOLATION|violation detail|KNOWN-FINDING|HARNESS-ERROR|WATCHDOG|^$id " | cut -c1-400
  echo "== $id $TIER seed=$SEED exit=$rc wall=$(( $(date +%s) - s ))s"
done
