//! proptest plumbing, sharding, evidence and replay files.

use std::collections::{BTreeMap, BTreeSet};
use std::fmt::Debug;
use std::hash::{Hash, Hasher};
use std::io::Write;
use std::path::PathBuf;
use std::time::Instant;

use proptest::strategy::{BoxedStrategy, Strategy};
use proptest::test_runner::{Config, RngAlgorithm, TestCaseError, TestError, TestRng, TestRunner};
use serde::de::DeserializeOwned;
use serde::{Deserialize, Serialize};
use serde_json::{json, Value};

use crate::core::Violation;

#[derive(Clone, Copy, Debug, PartialEq, Eq)]
pub enum Tier {
    Quick,
    Thorough,
}

impl Tier {
    pub fn name(self) -> &'static str {
        match self {
            Tier::Quick => "quick",
            Tier::Thorough => "thorough",
        }
    }
}

pub enum Verdict {
    Pass,
    Fail(Violation),
    /// harness could not decide (budget exhausted etc.) — never a violation
    Inconclusive(String),
}

pub struct Outcome {
    pub verdict: Verdict,
    pub nontrivial: bool,
    pub labels: Vec<String>,
    /// printable trace (replay mode)
    pub trace: Vec<String>,
}

impl Outcome {
    pub fn pass(nontrivial: bool, labels: Vec<String>) -> Self {
        Outcome { verdict: Verdict::Pass, nontrivial, labels, trace: vec![] }
    }
}

/// One generated-input check ("part") of a property
pub trait Part {
    type Case: Clone + Debug + Serialize + DeserializeOwned + 'static;
    const PROP: &'static str;
    const PART: &'static str;
    /// which binary variant runs this part ("" = default, "at" = async-trait, "v2" = output-port-v2)
    const VARIANT: &'static str = "";
    fn cases(tier: Tier) -> u32;
    fn strategy(tier: Tier) -> BoxedStrategy<Self::Case>;
    fn run(case: &Self::Case, want_trace: bool) -> Outcome;
    fn rule() -> &'static str;
    /// fixed regression / directed cases always executed first (shard 0 only)
    fn directed(_tier: Tier) -> Vec<Self::Case> {
        vec![]
    }
    /// marks the part as an exhaustive enumeration (the strategy is ignored; `directed` enumerates)
    const EXHAUSTIVE: bool = false;
    /// exhaustive parts: enumerate and judge in one pass; `visit` returns false to stop
    fn enumerate(_tier: Tier, _visit: &mut dyn FnMut(&Self::Case, Outcome) -> bool) {}
    /// false for free-running (uncontrolled OS thread) parts: a failing case need not reproduce,
    /// so it is reported as observed (with its recorded history) instead of being shrunk
    const DETERMINISTIC: bool = true;
    /// true for parts that feed hostile input to code which may abort the process (allocation
    /// failure, stack overflow): every case is written to an in-flight file first, and the parent
    /// reports a shard killed by a signal as a violation with that file as the replay
    const CRASH_IS_VIOLATION: bool = false;
}

#[derive(Serialize, Deserialize, Default, Debug)]
pub struct ShardResult {
    pub prop: String,
    pub part: String,
    pub evaluations: u64,
    pub nontrivial_hashes: Vec<u64>,
    pub labels: BTreeMap<String, u64>,
    pub samples: Vec<Value>,
    pub violation: Option<ViolationOut>,
    pub known: BTreeMap<String, u64>,
    pub inconclusive: u64,
    pub inconclusive_reasons: BTreeMap<String, u64>,
    pub wall_s: f64,
    pub exhaustive: bool,
    pub rule: String,
}

#[derive(Serialize, Deserialize, Debug, Clone)]
pub struct ViolationOut {
    pub sig: String,
    pub msg: String,
    pub replay: String,
}

#[derive(Serialize, Deserialize, Debug, Clone)]
pub struct KnownFinding {
    pub property: String,
    pub signature: String,
    pub status: String,
    #[serde(default)]
    pub commit: Option<String>,
    pub what: String,
}

pub fn verif_dir() -> PathBuf {
    std::env::var("VERIF_DIR").map(PathBuf::from).unwrap_or_else(|_| PathBuf::from("/verif"))
}

pub fn load_known(prop: &str) -> Vec<KnownFinding> {
    let p = verif_dir().join("known-findings.json");
    let Ok(s) = std::fs::read_to_string(p) else { return vec![] };
    let all: Vec<KnownFinding> = serde_json::from_str(&s).unwrap_or_default();
    all.into_iter().filter(|k| k.property == prop && k.status == "known").collect()
}

fn hash_case<C: Debug>(c: &C) -> u64 {
    let mut h = std::collections::hash_map::DefaultHasher::new();
    format!("{c:?}").hash(&mut h);
    h.finish()
}

#[derive(Serialize, Deserialize)]
pub struct ReplayFile<C> {
    pub property: String,
    pub part: String,
    pub signature: String,
    pub message: String,
    pub case: C,
}

fn rng_for(seed: u64, shard: u32) -> TestRng {
    let mut bytes = [0u8; 32];
    bytes[..8].copy_from_slice(&seed.to_le_bytes());
    bytes[8..12].copy_from_slice(&shard.to_le_bytes());
    bytes[12..16].copy_from_slice(b"rvrv");
    TestRng::from_seed(RngAlgorithm::ChaCha, &bytes)
}

struct Acc {
    evaluations: u64,
    hashes: BTreeSet<u64>,
    labels: BTreeMap<String, u64>,
    samples: Vec<Value>,
    known: BTreeMap<String, u64>,
    inconclusive: u64,
    inconclusive_reasons: BTreeMap<String, u64>,
    failed: bool,
}

static CASE_STARTED_MS: std::sync::atomic::AtomicU64 = std::sync::atomic::AtomicU64::new(0);
static CURRENT_CASE: std::sync::Mutex<String> = std::sync::Mutex::new(String::new());
static INFLIGHT: std::sync::Mutex<Option<PathBuf>> = std::sync::Mutex::new(None);

pub fn inflight_path(prop: &str, part: &str, shard: u32) -> PathBuf {
    verif_dir().join("replays").join(format!("inflight-{prop}-{part}-{shard}.json"))
}

fn now_ms() -> u64 {
    std::time::SystemTime::now().duration_since(std::time::UNIX_EPOCH).map(|d| d.as_millis() as u64).unwrap_or(0)
}

/// A case that runs longer than this (wall clock) is a harness problem or a hang in a sync
/// call: the shard exits with status 2 (inconclusive), never with a violation.
pub fn start_watchdog(limit_s: u64) {
    std::thread::spawn(move || loop {
        std::thread::sleep(std::time::Duration::from_millis(500));
        let st = CASE_STARTED_MS.load(std::sync::atomic::Ordering::Relaxed);
        if st != 0 && now_ms().saturating_sub(st) > limit_s * 1000 {
            let case = CURRENT_CASE.lock().map(|c| c.clone()).unwrap_or_default();
            eprintln!("WATCHDOG: one case exceeded {limit_s}s wall clock; case = {case}");
            let dir = verif_dir().join("replays");
            let _ = std::fs::create_dir_all(&dir);
            let _ = std::fs::write(dir.join(format!("watchdog-{}.json", std::process::id())), case);
            std::process::exit(2);
        }
    });
}

fn eval_one<P: Part>(case: &P::Case, acc: &mut Acc, known: &[KnownFinding], count: bool) -> Result<(), Violation> {
    if let Ok(mut c) = CURRENT_CASE.lock() {
        *c = serde_json::to_string(&ReplayFile { property: P::PROP.to_string(), part: P::PART.to_string(), signature: "watchdog".into(), message: String::new(), case: case.clone() }).unwrap_or_default();
    }
    CASE_STARTED_MS.store(now_ms(), std::sync::atomic::Ordering::Relaxed);
    if P::CRASH_IS_VIOLATION {
        if let (Ok(c), Some(path)) = (CURRENT_CASE.lock(), INFLIGHT.lock().ok().and_then(|p| p.clone())) {
            let _ = std::fs::write(path, c.replace("\"signature\":\"watchdog\"", &format!("\"signature\":\"{}/process-crash\"", P::PROP)));
        }
    }
    let r = eval_one_inner::<P>(case, acc, known, count);
    CASE_STARTED_MS.store(0, std::sync::atomic::Ordering::Relaxed);
    r
}

fn eval_one_inner<P: Part>(case: &P::Case, acc: &mut Acc, known: &[KnownFinding], count: bool) -> Result<(), Violation> {
    eval_outcome::<P>(case, None, acc, known, count)
}

fn eval_outcome<P: Part>(case: &P::Case, pre: Option<Outcome>, acc: &mut Acc, known: &[KnownFinding], count: bool) -> Result<(), Violation> {
    let out = if let Some(o) = pre { o } else { match std::panic::catch_unwind(std::panic::AssertUnwindSafe(|| P::run(case, false))) {
        Ok(o) => o,
        Err(e) => {
            let msg = e
                .downcast_ref::<String>()
                .cloned()
                .or_else(|| e.downcast_ref::<&str>().map(|s| s.to_string()))
                .unwrap_or_else(|| "?".into());
            Outcome {
                verdict: Verdict::Inconclusive(format!("harness-panic: {msg}")),
                nontrivial: false,
                labels: vec![],
                trace: vec![],
            }
        }
    } };
    if count {
        acc.evaluations += 1;
        if out.nontrivial {
            acc.hashes.insert(hash_case(case));
            if acc.samples.len() < 3 {
                acc.samples.push(serde_json::to_value(case).unwrap_or(Value::Null));
            }
        }
        for l in &out.labels {
            *acc.labels.entry(l.clone()).or_default() += 1;
        }
    }
    match out.verdict {
        Verdict::Pass => Ok(()),
        Verdict::Inconclusive(why) => {
            if count {
                acc.inconclusive += 1;
                *acc.inconclusive_reasons.entry(why).or_default() += 1;
            }
            Ok(())
        }
        Verdict::Fail(v) => {
            if known.iter().any(|k| k.signature == v.sig) {
                if count {
                    *acc.known.entry(v.sig.clone()).or_default() += 1;
                }
                Ok(())
            } else {
                Err(v)
            }
        }
    }
}

pub fn run_shard<P: Part>(tier: Tier, seed: u64, shard: u32, of: u32, cases_override: Option<u32>) -> ShardResult {
    let t0 = Instant::now();
    if P::CRASH_IS_VIOLATION {
        let _ = std::fs::create_dir_all(verif_dir().join("replays"));
        *INFLIGHT.lock().unwrap() = Some(inflight_path(P::PROP, P::PART, shard));
    }
    let known = load_known(P::PROP);
    let total = cases_override.unwrap_or_else(|| P::cases(tier));
    let my_cases = total / of + if shard < total % of { 1 } else { 0 };
    let mut acc = Acc {
        evaluations: 0,
        hashes: BTreeSet::new(),
        labels: BTreeMap::new(),
        samples: vec![],
        known: BTreeMap::new(),
        inconclusive: 0,
        inconclusive_reasons: BTreeMap::new(),
        failed: false,
    };
    let mut violation: Option<(Violation, P::Case)> = None;

    // directed cases: split round-robin over the shards
    // exhaustive parts enumerate by re-execution: do it once, in shard 0, judging as they go
    if P::EXHAUSTIVE && shard == 0 {
        let mut stop = false;
        P::enumerate(tier, &mut |case, outcome| {
            if stop {
                return false;
            }
            if let Err(v) = eval_outcome::<P>(case, Some(outcome), &mut acc, &known, true) {
                violation = Some((v, case.clone()));
                stop = true;
                return false;
            }
            true
        });
    }
    let directed = if P::EXHAUSTIVE { vec![] } else { P::directed(tier) };
    for (i, case) in directed.iter().enumerate() {
        if !P::EXHAUSTIVE && (i as u32) % of != shard {
            continue;
        }
        if let Err(v) = eval_one::<P>(case, &mut acc, &known, true) {
            violation = Some((v, case.clone()));
            break;
        }
    }

    if violation.is_none() && !P::EXHAUSTIVE && my_cases > 0 {
        let config = Config {
            cases: my_cases,
            failure_persistence: None,
            max_shrink_iters: 3000,
            max_global_rejects: 100_000,
            ..Config::default()
        };
        let mut runner = TestRunner::new_with_rng(config, rng_for(seed, shard));
        let strat = P::strategy(tier);
        let acc_cell = std::cell::RefCell::new(&mut acc);
        let last_v: std::cell::RefCell<Option<Violation>> = std::cell::RefCell::new(None);
        let observed: std::cell::RefCell<Option<(Violation, P::Case)>> = std::cell::RefCell::new(None);
        let res = runner.run(&strat, |case| {
            let mut a = acc_cell.borrow_mut();
            let count = !a.failed;
            if !P::DETERMINISTIC && observed.borrow().is_some() {
                return Ok(());
            }
            match eval_one::<P>(&case, &mut a, &known, count) {
                Ok(()) => Ok(()),
                Err(v) if !P::DETERMINISTIC => {
                    a.failed = true;
                    *observed.borrow_mut() = Some((v, case.clone()));
                    Ok(())
                }
                Err(v) => {
                    a.failed = true;
                    let msg = format!("{}: {}", v.sig, v.msg);
                    *last_v.borrow_mut() = Some(v);
                    Err(TestCaseError::fail(msg))
                }
            }
        });
        if let Some(ov) = observed.borrow_mut().take() {
            violation = Some(ov);
        }
        match res {
            Ok(()) => {}
            Err(TestError::Fail(_reason, minimal)) => {
                // recompute the violation on the minimal case
                let mut dummy = Acc {
                    evaluations: 0,
                    hashes: BTreeSet::new(),
                    labels: BTreeMap::new(),
                    samples: vec![],
                    known: BTreeMap::new(),
                    inconclusive: 0,
                    inconclusive_reasons: BTreeMap::new(),
                    failed: true,
                };
                let mut v = None;
                for _ in 0..5 {
                    if let Err(x) = eval_one::<P>(&minimal, &mut dummy, &known, false) {
                        v = Some(x);
                        break;
                    }
                }
                match v {
                    Some(v) => violation = Some((v, minimal)),
                    None => {
                        // the shrunk case does not reproduce: report the last seen violation text,
                        // flagged; treated as inconclusive by the parent
                        let lv = last_v.borrow().clone();
                        drop(acc_cell);
                        acc.inconclusive += 1;
                        *acc
                            .inconclusive_reasons
                            .entry(format!(
                                "non-reproducible failure: {}",
                                lv.map(|v| v.sig).unwrap_or_default()
                            ))
                            .or_default() += 1;
                    }
                }
            }
            Err(TestError::Abort(why)) => {
                drop(acc_cell);
                acc.inconclusive += 1;
                *acc.inconclusive_reasons.entry(format!("proptest abort: {why}")).or_default() += 1;
            }
        }
    }

    let violation_out = violation.map(|(v, case)| {
        let dir = verif_dir().join("replays");
        let _ = std::fs::create_dir_all(&dir);
        let h = hash_case(&case);
        let path = dir.join(format!("{}-{}-{:016x}.json", P::PROP, P::PART, h));
        let rf = ReplayFile {
            property: P::PROP.to_string(),
            part: P::PART.to_string(),
            signature: v.sig.clone(),
            message: v.msg.clone(),
            case,
        };
        let _ = std::fs::write(&path, serde_json::to_string_pretty(&rf).unwrap());
        ViolationOut { sig: v.sig, msg: v.msg, replay: path.display().to_string() }
    });

    if P::CRASH_IS_VIOLATION {
        let _ = std::fs::remove_file(inflight_path(P::PROP, P::PART, shard));
    }
    ShardResult {
        prop: P::PROP.into(),
        part: P::PART.into(),
        evaluations: acc.evaluations,
        nontrivial_hashes: acc.hashes.into_iter().collect(),
        labels: acc.labels,
        samples: acc.samples,
        violation: violation_out,
        known: acc.known,
        inconclusive: acc.inconclusive,
        inconclusive_reasons: acc.inconclusive_reasons,
        wall_s: t0.elapsed().as_secs_f64(),
        exhaustive: P::EXHAUSTIVE,
        rule: P::rule().to_string(),
    }
}

pub fn replay<P: Part>(path: &str) -> i32 {
    let s = std::fs::read_to_string(path).expect("read replay file");
    let rf: ReplayFile<P::Case> = serde_json::from_str(&s).expect("parse replay file");
    println!("replaying {} part {} (recorded signature {})", rf.property, rf.part, rf.signature);
    println!("case: {}", serde_json::to_string(&rf.case).unwrap());
    let out = P::run(&rf.case, true);
    for l in &out.trace {
        println!("  {l}");
    }
    match out.verdict {
        Verdict::Pass => {
            println!("PASS (labels {:?})", out.labels);
            0
        }
        Verdict::Inconclusive(w) => {
            println!("INCONCLUSIVE {w}");
            2
        }
        Verdict::Fail(v) => {
            println!("FAIL {}: {}", v.sig, v.msg);
            println!("VIOLATION property={} replay={}", P::PROP, path);
            1
        }
    }
}

/// Descriptor of a part for the parent process
pub struct PartDesc {
    pub prop: &'static str,
    pub part: &'static str,
    pub variant: &'static str,
    /// None when the part lives in another binary variant
    pub shard_fn: Option<fn(Tier, u64, u32, u32, Option<u32>) -> ShardResult>,
    pub replay_fn: Option<fn(&str) -> i32>,
    pub level: &'static str,
}

pub fn foreign(prop: &'static str, part: &'static str, variant: &'static str, level: &'static str) -> PartDesc {
    PartDesc { prop, part, variant, shard_fn: None, replay_fn: None, level }
}

pub fn desc<P: Part>(level: &'static str) -> PartDesc {
    PartDesc {
        prop: P::PROP,
        part: P::PART,
        variant: P::VARIANT,
        shard_fn: Some(run_shard::<P>),
        replay_fn: Some(replay::<P>),
        level,
    }
}

/// HEAD + hash of the uncommitted diff of the crates under /repo (what build.rs records at build time)
pub fn current_repo_state() -> String {
    let head = std::process::Command::new("git").args(["-C", "/repo", "rev-parse", "HEAD"]).output().map(|o| String::from_utf8_lossy(&o.stdout).trim().to_string()).unwrap_or_default();
    let diff = std::process::Command::new("git").args(["-C", "/repo", "diff", "HEAD", "--", "ractor/src", "ractor_cluster/src", "ractor_cluster_derive/src"]).output().map(|o| o.stdout).unwrap_or_default();
    let mut h: u64 = 0xcbf29ce484222325;
    for b in diff {
        h ^= b as u64;
        h = h.wrapping_mul(0x100000001b3);
    }
    format!("{head}-{h:016x}")
}

fn bin_for(variant: &str) -> PathBuf {
    let exe = std::env::current_exe().expect("current_exe");
    if variant.is_empty() {
        return exe;
    }
    let dir = exe.parent().unwrap();
    // target/release/rv  -> /verif/harness/bin/rv-<variant>
    let cand = verif_dir().join("harness").join("bin").join(format!("rv-{variant}"));
    if cand.exists() {
        cand
    } else {
        dir.join(format!("rv-{variant}"))
    }
}

/// Parent: run all parts of a property over `jobs` child processes and write the evidence file.
pub fn run_property(parts: &[&PartDesc], tier: Tier, seed: u64, jobs: u32, only_part: Option<&str>) -> i32 {
    let t0 = Instant::now();
    let prop = parts[0].prop;
    let mut merged: Vec<ShardResult> = vec![];
    let mut exit = 0;
    let mut harness_failures = vec![];
    let mut crash_violations: Vec<ViolationOut> = vec![];
    let mut crashes_known = 0u64;
    for p in parts {
        if let Some(op) = only_part {
            if op != p.part {
                continue;
            }
        }
        let bin = bin_for(p.variant);
        if !p.variant.is_empty() {
            // the other build variants are separate binaries: warn when one was built from another tree
            if let Ok(o) = std::process::Command::new(&bin).arg("built-from").output() {
                let built = String::from_utf8_lossy(&o.stdout).trim().to_string();
                let now = current_repo_state();
                if !built.is_empty() && built != now {
                    eprintln!("WARNING: {} was built from /repo state {built}, the tree is now {now}: STALE BINARY — rebuild with /verif/check", bin.display());
                }
            }
        }
        let mut children = vec![];
        for shard in 0..jobs {
            let child = std::process::Command::new(&bin)
                .args([
                    "shard",
                    p.prop,
                    p.part,
                    "--tier",
                    tier.name(),
                    "--seed",
                    &seed.to_string(),
                    "--shard",
                    &shard.to_string(),
                    "--of",
                    &jobs.to_string(),
                ])
                .stdout(std::process::Stdio::piped())
                .stderr(std::process::Stdio::piped())
                .spawn();
            match child {
                Ok(c) => children.push((shard, c)),
                Err(e) => harness_failures.push(format!("spawn {}: {e}", bin.display())),
            }
        }
        // drain every child concurrently: a child that fills its stderr pipe while the parent waits
        // for an earlier shard would stall (and trip its own watchdog)
        let waiters: Vec<(u32, std::thread::JoinHandle<std::io::Result<std::process::Output>>)> = children.into_iter().map(|(shard, c)| (shard, std::thread::spawn(move || c.wait_with_output()))).collect();
        for (shard, w) in waiters {
            let out = w.join().expect("waiter thread").expect("wait child");
            let stdout = String::from_utf8_lossy(&out.stdout);
            let line = stdout.lines().rev().find(|l| l.starts_with("SHARD-RESULT ")).map(|l| l["SHARD-RESULT ".len()..].to_string());
            match line.and_then(|l| serde_json::from_str::<ShardResult>(&l).ok()) {
                Some(r) => merged.push(r),
                None if out.status.code().is_none() && inflight_path(p.prop, p.part, shard).exists() => {
                    // the shard was killed by a signal while running a case of a crash-attributed part
                    let inflight = inflight_path(p.prop, p.part, shard);
                    let body = std::fs::read_to_string(&inflight).unwrap_or_default();
                    let mut h = std::collections::hash_map::DefaultHasher::new();
                    body.hash(&mut h);
                    let dest = verif_dir().join("replays").join(format!("{}-{}-crash-{:016x}.json", p.prop, p.part, h.finish()));
                    let _ = std::fs::rename(&inflight, &dest);
                    let sig = format!("{}/process-crash", p.prop);
                    let known_list = load_known(p.prop);
                    if known_list.iter().any(|k| k.signature == sig) {
                        crashes_known += 1;
                    } else {
                        crash_violations.push(ViolationOut { sig, msg: format!("the process running part {} was killed by a signal ({:?}) while executing the case in the replay file", p.part, out.status), replay: dest.display().to_string() });
                    }
                }
                None => {
                    let err = String::from_utf8_lossy(&out.stderr);
                    let tail: String = err.lines().rev().take(12).collect::<Vec<_>>().into_iter().rev().collect::<Vec<_>>().join("\n");
                    harness_failures.push(format!("part {} shard {shard}: no result (status {:?})\n{tail}", p.part, out.status.code()));
                }
            }
        }
    }

    // merge
    let mut evaluations = 0u64;
    let mut distinct = 0u64;
    let mut labels: BTreeMap<String, u64> = BTreeMap::new();
    let mut samples: Vec<Value> = vec![];
    let mut known: BTreeMap<String, u64> = BTreeMap::new();
    let mut inconclusive = 0u64;
    let mut inconclusive_reasons: BTreeMap<String, u64> = BTreeMap::new();
    let mut violations: Vec<ViolationOut> = crash_violations;
    if crashes_known > 0 {
        *known.entry(format!("{prop}/process-crash")).or_default() += crashes_known;
    }
    let mut per_part: BTreeMap<String, (u64, BTreeSet<u64>, bool, String, f64)> = BTreeMap::new();
    for r in &merged {
        evaluations += r.evaluations;
        let e = per_part.entry(r.part.clone()).or_insert((0, BTreeSet::new(), r.exhaustive, r.rule.clone(), 0.0));
        e.0 += r.evaluations;
        e.1.extend(r.nontrivial_hashes.iter().copied());
        e.4 += r.wall_s;
        for (k, v) in &r.labels {
            *labels.entry(format!("{}:{}", r.part, k)).or_default() += v;
        }
        for s in &r.samples {
            if samples.len() < 6 {
                samples.push(json!({"part": r.part, "case": s}));
            }
        }
        for (k, v) in &r.known {
            *known.entry(k.clone()).or_default() += v;
        }
        inconclusive += r.inconclusive;
        for (k, v) in &r.inconclusive_reasons {
            *inconclusive_reasons.entry(k.clone()).or_default() += v;
        }
        if let Some(v) = &r.violation {
            violations.push(v.clone());
        }
    }
    let mut parts_json = serde_json::Map::new();
    let mut rule = String::new();
    let mut all_exhaustive = !per_part.is_empty();
    for (name, (ev, hs, ex, r, cpu)) in &per_part {
        distinct += hs.len() as u64;
        all_exhaustive &= *ex;
        parts_json.insert(
            name.clone(),
            json!({"evaluations": ev, "distinct_nontrivial": hs.len(), "exhaustive": ex, "rule": r, "cpu_s": (cpu * 100.0).round() / 100.0}),
        );
        rule.push_str(&format!("[{name}] {r} "));
    }
    if samples.is_empty() {
        // fall back to any case so that the list is never empty when cases ran
        for r in &merged {
            if let Some(s) = r.samples.first() {
                samples.push(json!({"part": r.part, "case": s}));
            }
        }
    }

    let known_list = load_known(prop);
    for k in &known_list {
        let n = known.get(&k.signature).copied().unwrap_or(0);
        println!("KNOWN-FINDING: property={} {} [signature {} seen {}x in this run]", prop, k.what, k.signature, n);
    }
    for v in &violations {
        println!("violation detail: {} — {}", v.sig, v.msg);
        println!("VIOLATION property={} replay={}", prop, v.replay);
        exit = 1;
    }
    if exit == 0 && !harness_failures.is_empty() {
        for f in &harness_failures {
            eprintln!("HARNESS-ERROR {f}");
        }
        exit = 2;
    }

    let level = parts[0].level;
    let ev = json!({
        "property_id": prop,
        "tier": tier.name(),
        "seed": seed,
        "level": level,
        "coverage": {
            "evaluations": evaluations,
            "distinct_nontrivial": distinct,
            "rule": rule.trim(),
            "samples": samples,
            "exhaustive": all_exhaustive,
            "parts": parts_json,
            "labels": labels,
            "known_findings_hit": known,
            "inconclusive_cases": inconclusive,
            "inconclusive_reasons": inconclusive_reasons,
        },
        "assumptions": [
            "schedules are explored at task-poll granularity on a single-threaded paused-clock tokio runtime (E1) and at verif_point! granularity on controlled OS threads (E2)",
            "generated-input search: absence of a violation is not a proof"
        ],
        "wall_s": (t0.elapsed().as_secs_f64() * 100.0).round() / 100.0,
        "violations": violations.len(),
    });
    let dir = verif_dir().join("evidence");
    let _ = std::fs::create_dir_all(&dir);
    let path = dir.join(format!("{prop}.json"));
    let mut f = std::fs::File::create(&path).expect("evidence file");
    f.write_all(serde_json::to_string_pretty(&ev).unwrap().as_bytes()).unwrap();
    println!(
        "{prop} {}: evaluations={evaluations} distinct_nontrivial={distinct} inconclusive={inconclusive} violations={} wall={:.1}s",
        tier.name(),
        violations.len(),
        t0.elapsed().as_secs_f64()
    );
    exit
}

pub fn vec_strategy<T: Debug + Clone + 'static>(elem: impl Strategy<Value = T> + 'static, lo: usize, hi: usize) -> BoxedStrategy<Vec<T>> {
    proptest::collection::vec(elem, lo..=hi).boxed()
}
