// Records which /repo tree this binary was built from, so that `rv run` can warn when the
// working tree has changed since (e.g. a seeded patch was applied or undone without a rebuild).
use std::process::Command;

fn main() {
    for d in ["/repo/ractor/src", "/repo/ractor_cluster/src", "/repo/ractor_cluster_derive/src", "/repo/ractor/Cargo.toml", "/repo/ractor_cluster/Cargo.toml"] {
        println!("cargo:rerun-if-changed={d}");
    }
    println!("cargo:rustc-env=RV_REPO_STATE={}", repo_state());
}

fn repo_state() -> String {
    let head = Command::new("git").args(["-C", "/repo", "rev-parse", "HEAD"]).output().map(|o| String::from_utf8_lossy(&o.stdout).trim().to_string()).unwrap_or_default();
    let diff = Command::new("git").args(["-C", "/repo", "diff", "HEAD", "--", "ractor/src", "ractor_cluster/src", "ractor_cluster_derive/src"]).output().map(|o| o.stdout).unwrap_or_default();
    let mut h: u64 = 0xcbf29ce484222325;
    for b in diff {
        h ^= b as u64;
        h = h.wrapping_mul(0x100000001b3);
    }
    format!("{head}-{h:016x}")
}
