pub mod c01;
