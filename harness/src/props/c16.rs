//! C16 — output ports fan out in order without duplicates (E1; default port and output-port-v2)

use std::collections::HashMap;

use proptest::prelude::*;

use crate::core::*;
use crate::gate::DriveEnd;
use crate::gen;
use crate::runner::*;

pub struct C16;

#[cfg(feature = "v2")]
const IS_V2: bool = true;
#[cfg(not(feature = "v2"))]
const IS_V2: bool = false;

pub fn strategy(tier: Tier) -> BoxedStrategy<Scenario> {
    let max_ops = if tier == Tier::Quick { 40 } else { 90 };
    (1u8..=4)
        .prop_flat_map(move |n| {
            let sub = proptest::collection::vec(prop_oneof![3 => Just(vec![]), 2 => Just(vec![Act::Yield]), 2 => (1u16..4).prop_map(|ms| vec![Act::Sleep(ms)])], n as usize);
            let op = prop_oneof![
                14 => Just(Op::PortPub(0)),
                // a burst longer than the v2 port's batch size (32) and the default port's buffer (10)
                1 => prop_oneof![2 => 2u8..12, 2 => 30u8..40, 2 => 60u8..70, 1 => 90u8..100].prop_map(|n| Op::PortPubMany { first: 0, n }),
                3 => (gen::idx(n), 0u8..5).prop_map(|(who, conv)| Op::PortSub { who, conv }),
                1 => gen::idx(n).prop_map(Op::Stop),
                1 => gen::idx(n).prop_map(Op::Kill),
                3 => Just(Op::Yield),
                1 => (0u16..3).prop_map(Op::Sleep),
            ];
            (Just(n), sub, proptest::collection::vec(op, 1..=max_ops), gen::schedule(200))
        })
        .prop_map(|(n, subs, mut ops, schedule)| {
            let specs: Vec<ActorSpec> = subs.into_iter().map(|h| ActorSpec { variant: Some(Variant::Spawn), handle: vec![h], ..Default::default() }).collect();
            // number the publications
            let mut k = 0;
            for op in ops.iter_mut() {
                if let Op::PortPub(x) = op {
                    *x = k;
                    k += 1;
                }
                if let Op::PortPubMany { first, n } = op {
                    *first = k;
                    k += *n as u32;
                }
            }
            let mut c0: Vec<Op> = (0..n).map(Op::Spawn).collect();
            // at least one early subscription
            c0.push(Op::PortSub { who: 0, conv: 4 });
            c0.extend(ops);
            Scenario { specs, clients: vec![c0], schedule }
        })
        .boxed()
}

pub fn check(sc: &Scenario, ex: &Exec) -> Result<(bool, Vec<String>), Violation> {
    let tr = &ex.trace;
    let ops = &sc.clients[0];
    let mut labels = vec![];
    // publications (number, trace position) and subscriptions (sid -> (who, conv, position))
    let mut pubs: Vec<(u32, usize)> = vec![];
    let mut subs: HashMap<u16, (usize, u8, usize)> = HashMap::new();
    let mut exits: HashMap<usize, usize> = HashMap::new(); // actor -> position of the first stop/kill issued
    for (pos, e) in tr.iter().enumerate() {
        if let Ev::OpEnd { c: 0, i, res } = &e.ev {
            match (&ops[*i], res) {
                (Op::PortPub(n), _) => pubs.push((*n, pos)),
                (Op::PortPubMany { first, n }, _) => pubs.extend((0..*n as u32).map(|k| (*first + k, pos))),
                (Op::PortSub { who, conv }, Res::Found(sid)) => {
                    subs.insert(*sid as u16, (*who as usize, *conv, pos));
                }
                (Op::Stop(a) | Op::Kill(a), r) if *r != Res::Skipped => {
                    exits.entry(*a as usize).or_insert(pos);
                }
                _ => {}
            }
        }
    }
    let keep = |conv: u8, n: u32| !(conv < 3 && (n + conv as u32) % 3 == 0);
    let mut nontrivial_mid = false;
    let mut dead_or_lag = false;
    for (sid, (who, conv, at)) in &subs {
        let expected: Vec<u32> = pubs.iter().filter(|(n, p)| p > at && keep(*conv, *n)).map(|(n, _)| *n).collect();
        let raw_after: Vec<(u32, usize)> = pubs.iter().filter(|(_, p)| p > at).copied().collect();
        let received: Vec<u32> = tr
            .iter()
            .filter_map(|e| match &e.ev {
                Ev::Enter { a, cb: Cb::Handle, tag: Tag::Num { sender, seq } } if a == who && *sender == PORT_SENDER_BASE + sid => Some(*seq),
                _ => None,
            })
            .collect();
        // never twice, in publication order, only what was published after the subscription and not filtered
        for w in received.windows(2) {
            if w[1] <= w[0] {
                return Err(viol(if w[1] == w[0] { "C16/duplicate" } else { "C16/out-of-order" }, format!("subscription {sid} (actor {who}) received {received:?}")));
            }
        }
        for r in &received {
            if !expected.contains(r) {
                let why = if pubs.iter().any(|(n, p)| n == r && p <= at) { "published before the subscription" } else if !keep(*conv, *r) { "mapped to None by its converter" } else { "never published" };
                return Err(viol("C16/unexpected-message", format!("subscription {sid} (actor {who}) received {r}, which was {why}; received {received:?}")));
            }
        }
        if pubs.iter().any(|(_, p)| p < at) && !expected.is_empty() {
            nontrivial_mid = true;
        }
        let exited = exits.get(who).copied();
        if exited.is_some() {
            dead_or_lag = true;
        }
        if received.len() < expected.len() {
            dead_or_lag = true;
        }
        if ex.end_main == DriveEnd::Done {
            if IS_V2 {
                // nothing may be skipped while the subscriber lives
                let must: Vec<u32> = match exited {
                    None => expected.clone(),
                    Some(x) => pubs.iter().filter(|(n, p)| p > at && *p < x && keep(*conv, *n)).map(|(n, _)| *n).collect::<Vec<_>>(),
                };
                // messages published before the exit was even requested: all of them unless the subscriber was killed
                // (a kill may drop what is already in its mailbox); for stop/kill we only demand the prefix property
                if exited.is_none() && received != must {
                    return Err(viol("C16/v2-skipped", format!("subscription {sid} (actor {who}, alive): expected exactly {must:?}, received {received:?}")));
                }
                if exited.is_some() {
                    let n = received.len().min(expected.len());
                    if received[..n] != expected[..n] {
                        return Err(viol("C16/v2-skipped", format!("subscription {sid} (actor {who}): received {received:?} is not a prefix of {expected:?}")));
                    }
                }
            } else if exited.is_none() {
                // default port: a lagging receiver resumes at the oldest retained slot; the last 10 raw
                // publications are always retained
                let tail: Vec<u32> = raw_after.iter().rev().take(10).map(|(n, _)| *n).filter(|n| keep(*conv, *n)).collect();
                for t in tail {
                    if !received.contains(&t) {
                        return Err(viol("C16/v1-lost-recent", format!("subscription {sid} (actor {who}, alive) never received {t}, one of the last 10 publications; received {received:?}")));
                    }
                }
            }
        }
    }
    if subs.len() >= 2 {
        labels.push("multi-subscriber".to_string());
    }
    Ok((nontrivial_mid && dead_or_lag, labels))
}

impl Part for C16 {
    type Case = Scenario;
    const PROP: &'static str = "C16";
    #[cfg(feature = "v2")]
    const PART: &'static str = "e1-v2";
    #[cfg(not(feature = "v2"))]
    const PART: &'static str = "e1-v1";
    #[cfg(feature = "v2")]
    const VARIANT: &'static str = "v2";
    fn cases(tier: Tier) -> u32 {
        match tier {
            Tier::Quick => 60_000,
            Tier::Thorough => 1_500_000,
        }
    }
    fn strategy(tier: Tier) -> BoxedStrategy<Scenario> {
        strategy(tier)
    }
    fn run(case: &Scenario, want_trace: bool) -> Outcome {
        let ex = exec_scenario(case, ExecOpts::default(), |_, _, _| {}, |_| vec![]);
        let trace = if want_trace { fmt_trace(&ex.trace) } else { vec![] };
        if let Some(p) = &ex.client_panic {
            return Outcome { verdict: Verdict::Fail(viol("C16/client-panic", p.clone())), nontrivial: false, labels: vec![], trace };
        }
        match check(case, &ex) {
            Err(v) => Outcome { verdict: Verdict::Fail(v), nontrivial: false, labels: vec![], trace },
            Ok((nontrivial, labels)) => {
                if ex.end_main == DriveEnd::Budget || ex.end_sweep == DriveEnd::Budget {
                    return Outcome { verdict: Verdict::Inconclusive("step budget".into()), nontrivial: false, labels, trace };
                }
                if ex.end_main == DriveEnd::Stuck {
                    return Outcome { verdict: Verdict::Fail(viol("C16/publisher-blocked", "the publishing client never finished: send/subscribe blocked")), nontrivial, labels, trace };
                }
                Outcome { verdict: Verdict::Pass, nontrivial, labels, trace }
            }
        }
    }
    fn rule() -> &'static str {
        if IS_V2 {
            "output-port-v2 build: generated publisher history (up to 40/90 ops: numbered publications, bursts of 2-100 publications back to back, subscriptions of 1-4 scripted subscriber actors at arbitrary stream positions incl. re-subscription, converters that tag the subscription and map a generated residue class to None, stop/kill of subscribers, yields) with slow subscribers and schedule bytes; oracle per subscription: received == filter_map(published after subscribe) exactly while the subscriber lives (prefix after a stop/kill), strictly increasing, nothing from before the subscription; non-trivial = a mid-stream subscription plus a dead or lagging subscriber"
        } else {
            "default (broadcast) port: same generator; oracle per subscription: received is a strictly increasing subsequence of filter_map(published after subscribe) without duplicates, and every mapped message among the last 10 raw publications is present for a live subscriber; non-trivial = a mid-stream subscription plus a dead or lagging subscriber"
        }
    }
}

// =====================================================================================
// free-running threads: publisher, subscriber churn and the runtime of the observers on three OS threads
//
// The E1 part runs publisher, forwarding tasks and subscribers on one thread, where `send` and `subscribe`
// are atomic with respect to each other. Here `send` runs on a publisher thread while another thread keeps
// subscribing (idle actors, a stopped actor, a second observer) to the same port.

pub mod threads {
    use std::sync::atomic::{AtomicBool, AtomicI64, AtomicU64, Ordering};
    use std::sync::{Arc, Mutex};
    use std::time::{Duration, Instant};

    use proptest::prelude::*;
    use ractor::port::OutputPort;
    use ractor::{Actor, ActorProcessingErr, ActorRef};
    use serde::{Deserialize, Serialize};

    use crate::core::{viol, Violation};
    use crate::runner::*;

    const FINAL: u64 = 1 << 40;

    #[derive(Default)]
    pub struct ObsShared {
        got: Mutex<Vec<u64>>,
        /// last number seen, -1 = none
        last: AtomicI64,
    }

    struct Observer;
    #[cfg_attr(feature = "async-trait", ractor::async_trait)]
    impl Actor for Observer {
        type Msg = u64;
        type State = Arc<ObsShared>;
        type Arguments = Arc<ObsShared>;
        async fn pre_start(&self, _m: ActorRef<u64>, a: Arc<ObsShared>) -> Result<Self::State, ActorProcessingErr> {
            Ok(a)
        }
        async fn handle(&self, _m: ActorRef<u64>, n: u64, st: &mut Self::State) -> Result<(), ActorProcessingErr> {
            st.got.lock().unwrap().push(n);
            st.last.store(n as i64, Ordering::SeqCst);
            Ok(())
        }
    }

    struct Idle;
    #[cfg_attr(feature = "async-trait", ractor::async_trait)]
    impl Actor for Idle {
        type Msg = u64;
        type State = ();
        type Arguments = ();
        async fn pre_start(&self, _m: ActorRef<u64>, _: ()) -> Result<(), ActorProcessingErr> {
            Ok(())
        }
    }

    #[derive(Clone, Copy, Debug, Serialize, Deserialize, PartialEq)]
    pub enum SubKind {
        Idle,
        Dead,
        Observer2,
    }

    #[derive(Clone, Debug, Serialize, Deserialize)]
    pub struct ThreadsCase {
        pub n_pub: u8,
        /// the publisher never runs more than this many publications ahead of what the observers have seen (< buffer of the default port)
        pub window: u8,
        /// busy-wait before each publication (cyclic), units of 32 iterations
        pub pub_spin: Vec<u16>,
        /// subscriber thread: (busy-wait before, what to subscribe)
        pub subs: Vec<(u16, SubKind)>,
        pub rounds: u8,
    }

    fn spin(n: u32) {
        for _ in 0..n {
            std::hint::spin_loop();
        }
    }

    struct World {
        port: Arc<OutputPort<u64>>,
        o2: ActorRef<u64>,
        idle: ActorRef<u64>,
        dead: ActorRef<u64>,
        handle: tokio::runtime::Handle,
    }

    enum Round {
        Judged { o2_subscribed: bool },
        NotJudged(&'static str),
    }

    fn one_round(case: &ThreadsCase) -> Result<Round, Violation> {
        let (s1, s2) = (Arc::new(ObsShared::default()), Arc::new(ObsShared::default()));
        s1.last.store(-1, Ordering::SeqCst);
        s2.last.store(-1, Ordering::SeqCst);
        let done = Arc::new(AtomicBool::new(false));
        let (tx, rx) = std::sync::mpsc::channel::<World>();
        let (s1r, s2r, done_r) = (s1.clone(), s2.clone(), done.clone());
        let rt_thread = std::thread::spawn(move || {
            let rt = tokio::runtime::Builder::new_current_thread().enable_time().build().expect("rt");
            let handle = rt.handle().clone();
            rt.block_on(async move {
                let (o1, h1) = Actor::spawn(None, Observer, s1r).await.expect("spawn");
                let (o2, h2) = Actor::spawn(None, Observer, s2r).await.expect("spawn");
                let (idle, h3) = Actor::spawn(None, Idle, ()).await.expect("spawn");
                let (dead, h4) = Actor::spawn(None, Idle, ()).await.expect("spawn");
                dead.stop(None);
                let _ = h4.await;
                let port = Arc::new(OutputPort::<u64>::default());
                port.subscribe(o1.clone(), Some);
                // let the subscription settle (the v2 port registers subscribers in its own task)
                for _ in 0..4 {
                    tokio::task::yield_now().await;
                }
                let _ = tx.send(World { port: port.clone(), o2: o2.clone(), idle: idle.clone(), dead, handle });
                while !done_r.load(Ordering::SeqCst) {
                    tokio::time::sleep(Duration::from_micros(200)).await;
                }
                drop(port);
                for a in [o1.get_cell(), o2.get_cell(), idle.get_cell()] {
                    a.stop(None);
                }
                let _ = (h1.await, h2.await, h3.await);
            });
        });
        let w = match rx.recv() {
            Ok(w) => w,
            Err(_) => {
                let _ = rt_thread.join();
                return Ok(Round::NotJudged("runtime thread failed"));
            }
        };
        let n = case.n_pub as u64;
        // 2 * (window + 1) <= 8 < 10: even a forwarding task that is a whole scheduling round behind observer 1 stays inside the buffer
        let win = case.window.clamp(1, 3) as i64;
        // number of the first publication that began after observer 2's subscribe call returned (u64::MAX: not subscribed)
        let o2_from = Arc::new(AtomicU64::new(u64::MAX));
        let next = Arc::new(AtomicU64::new(0));
        let barrier = Arc::new(std::sync::Barrier::new(2));
        let stuck = Arc::new(AtomicBool::new(false));
        let publisher = {
            let (port, s1, s2, o2_from, next, barrier, stuck, spins) = (w.port.clone(), s1.clone(), s2.clone(), o2_from.clone(), next.clone(), barrier.clone(), stuck.clone(), case.pub_spin.clone());
            std::thread::spawn(move || {
                barrier.wait();
                for i in 0..n {
                    if !spins.is_empty() {
                        spin(spins[i as usize % spins.len()] as u32 * 32);
                    }
                    // stay within the window: the observers have seen publication i-1-window (or a later one)
                    let need = i as i64 - 1 - win;
                    let t0 = Instant::now();
                    loop {
                        let from = o2_from.load(Ordering::SeqCst);
                        let ok1 = s1.last.load(Ordering::SeqCst) >= need;
                        let ok2 = from == u64::MAX || (from as i64) > need || s2.last.load(Ordering::SeqCst) >= need;
                        if ok1 && ok2 {
                            break;
                        }
                        if t0.elapsed() > Duration::from_secs(5) {
                            stuck.store(true, Ordering::SeqCst);
                            return;
                        }
                        std::thread::yield_now();
                    }
                    next.store(i + 1, Ordering::SeqCst);
                    port.send(i);
                }
            })
        };
        let subscriber = {
            let (port, o2, idle, dead, handle, o2_from, next, barrier, subs) = (w.port.clone(), w.o2.clone(), w.idle.clone(), w.dead.clone(), w.handle.clone(), o2_from.clone(), next.clone(), barrier.clone(), case.subs.clone());
            std::thread::spawn(move || {
                let _ctx = handle.enter();
                barrier.wait();
                for (sp, kind) in subs {
                    spin(sp as u32 * 32);
                    match kind {
                        SubKind::Idle => port.subscribe(idle.clone(), Some),
                        SubKind::Dead => port.subscribe(dead.clone(), Some),
                        SubKind::Observer2 => {
                            if o2_from.load(Ordering::SeqCst) == u64::MAX {
                                port.subscribe(o2.clone(), Some);
                                o2_from.store(next.load(Ordering::SeqCst), Ordering::SeqCst);
                            }
                        }
                    }
                }
            })
        };
        let _ = subscriber.join();
        let _ = publisher.join();
        let mut not_judged = None;
        if stuck.load(Ordering::SeqCst) {
            not_judged = Some("publisher window never opened within 5 s");
        } else {
            // nothing runs concurrently any more: one last publication flushes the stream
            w.port.send(FINAL);
            let from = o2_from.load(Ordering::SeqCst);
            let t0 = Instant::now();
            loop {
                let ok1 = s1.last.load(Ordering::SeqCst) == FINAL as i64;
                let ok2 = from == u64::MAX || s2.last.load(Ordering::SeqCst) == FINAL as i64;
                if ok1 && ok2 {
                    break;
                }
                if t0.elapsed() > Duration::from_secs(5) {
                    not_judged = Some("final publication not seen within 5 s");
                    break;
                }
                std::thread::yield_now();
            }
        }
        done.store(true, Ordering::SeqCst);
        drop(w);
        let _ = rt_thread.join();
        if let Some(why) = not_judged {
            return Ok(Round::NotJudged(why));
        }
        let from = o2_from.load(Ordering::SeqCst);
        let g1 = s1.got.lock().unwrap().clone();
        let g2 = s2.got.lock().unwrap().clone();
        let want1: Vec<u64> = (0..n).chain([FINAL]).collect();
        for (name, g) in [("observer 1", &g1), ("observer 2", &g2)] {
            for wd in g.windows(2) {
                if wd[1] <= wd[0] {
                    return Err(viol(if wd[1] == wd[0] { "C16/duplicate" } else { "C16/out-of-order" }, format!("(free-running threads; observed history) {name} received {g:?}")));
                }
            }
        }
        if g1 != want1 {
            let missing: Vec<u64> = want1.iter().filter(|x| !g1.contains(x)).copied().collect();
            return Err(viol("C16/skipped-without-lag", format!("(free-running threads; observed history) observer 1 was subscribed before the first publication and never more than {} publications behind, {} publications; it never received {missing:?} (other actors were being subscribed to the port from another thread meanwhile)", win + 1, n)));
        }
        if from != u64::MAX {
            let missing: Vec<u64> = (from..n).chain([FINAL]).filter(|x| !g2.contains(x)).collect();
            if !missing.is_empty() {
                return Err(viol("C16/skipped-without-lag", format!("(free-running threads; observed history) observer 2's subscribe call returned before publication {from} began; it never received {missing:?}; received {g2:?}")));
            }
        } else if !g2.is_empty() {
            return Err(viol("C16/unexpected-message", format!("(free-running threads) observer 2 was never subscribed but received {g2:?}")));
        }
        Ok(Round::Judged { o2_subscribed: from != u64::MAX && from > 0 && from < n })
    }

    pub struct C16Threads;
    impl Part for C16Threads {
        type Case = ThreadsCase;
        const PROP: &'static str = "C16";
        #[cfg(feature = "v2")]
        const PART: &'static str = "free-threads-v2";
        #[cfg(not(feature = "v2"))]
        const PART: &'static str = "free-threads-v1";
        #[cfg(feature = "v2")]
        const VARIANT: &'static str = "v2";
        const DETERMINISTIC: bool = false;
        fn cases(tier: Tier) -> u32 {
            match tier {
                Tier::Quick => 1_200,
                Tier::Thorough => 40_000,
            }
        }
        fn strategy(_tier: Tier) -> BoxedStrategy<ThreadsCase> {
            let kind = prop_oneof![6 => Just(SubKind::Idle), 2 => Just(SubKind::Dead), 1 => Just(SubKind::Observer2)];
            let sub = (prop_oneof![3 => Just(0u16), 3 => 0u16..20, 1 => 20u16..400], kind);
            (20u8..80, 1u8..=3, proptest::collection::vec(prop_oneof![2 => Just(0u16), 2 => 0u16..30, 1 => 30u16..300], 1..6), proptest::collection::vec(sub, 8..100))
                .prop_map(|(n_pub, window, pub_spin, subs)| ThreadsCase { n_pub, window, pub_spin, subs, rounds: 3 })
                .boxed()
        }
        fn run(case: &ThreadsCase, _want_trace: bool) -> Outcome {
            let (mut judged, mut mid, mut labels) = (0, false, vec![]);
            for _ in 0..case.rounds {
                match one_round(case) {
                    Err(v) => return Outcome { verdict: Verdict::Fail(v), nontrivial: false, labels: vec![], trace: vec![] },
                    Ok(Round::Judged { o2_subscribed }) => {
                        judged += 1;
                        mid |= o2_subscribed;
                    }
                    Ok(Round::NotJudged(why)) => labels.push(format!("round-not-judged: {why}")),
                }
            }
            if judged == 0 {
                return Outcome { verdict: Verdict::Inconclusive("no round could be judged".into()), nontrivial: false, labels, trace: vec![] };
            }
            if mid {
                labels.push("mid-stream-observer".into());
            }
            Outcome { verdict: Verdict::Pass, nontrivial: true, labels, trace: vec![] }
        }
        fn rule() -> &'static str {
            "three OS threads, 3 rounds per case: the observers' current-thread runtime; a publisher thread publishing 20-80 numbered messages with generated busy-waits, never more than window+1 (2-4, well below the default port's buffer of 10) publications ahead of what the observers have seen; a subscriber thread making 8-100 subscribe calls (an idle actor, a stopped actor, once a second observer) with generated busy-waits; then one final publication with nothing else running. Oracle on the observed history: observer 1 (subscribed before the first publication) receives exactly 0..n and the final one, in order, once; observer 2 receives, in order and once, at least every publication that began after its subscribe call returned. A round whose publisher window or final publication is not seen within 5 s is not judged (label); non-trivial = at least one judged round"
        }
    }
}
