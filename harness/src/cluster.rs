//! E3: cluster scenarios — real `NodeServer`s joined by in-memory chaos links (or facing a
//! harness-played raw peer), everything scheduled by the E1 gate on a paused clock.
//!
//! Both "nodes" live in this process (as in the crate's own in-memory tests), so the pid
//! registry and the process groups are shared: every remotable actor is local to both
//! node servers and is advertised by each of them to the other.

use std::collections::{BTreeMap, VecDeque};
use std::pin::Pin;
use std::sync::{Arc, Mutex};
use std::task::{Context, Poll, Waker};

use prost::Message as _;
use ractor::concurrency::JoinHandle;
use ractor::{Actor, ActorId, ActorProcessingErr, ActorRef, RpcReplyPort};
use ractor_cluster::node::NodeServerSessionInformation;
pub use ractor_cluster::verif::proto::{auth, control, meta, node, NetworkMessage};
use ractor_cluster::{BoxRead, BoxWrite, ClusterBidiStream, NodeEventSubscription, NodeServer, NodeServerMessage, RactorClusterMessage};
use serde::{Deserialize, Serialize};

use crate::core::{log, Env, Ev};
use crate::gate::{drive, DriveEnd};

// ---------------------------------------------------------------------------------
// chaos link

#[derive(Default)]
pub struct Dir {
    buf: VecDeque<u8>,
    pub writer_gone: bool,
    pub reader_gone: bool,
    reader_waker: Option<Waker>,
    /// maximum number of bytes handed out per read call, cycled (0 = as many as asked)
    pub frag: Vec<u8>,
    frag_pos: usize,
    pub delivered: u64,
    pub written: u64,
    /// the connection is lost once this many bytes were delivered in this direction
    pub cut_at: Option<u64>,
    pub max_requested: usize,
    pub reads: u64,
    /// bytes sitting in the pipe, high-water mark
    pub max_buffered: usize,
    /// network delay: nothing is handed to the reader before this (virtual) instant
    pub stall_until: Option<tokio::time::Instant>,
}

pub struct LinkSt {
    pub dirs: [Dir; 2],
    pub cut: bool,
}

/// A bidirectional in-memory connection; side `s` writes `dirs[s]` and reads `dirs[1 - s]`
#[derive(Clone)]
pub struct Link {
    pub st: Arc<Mutex<LinkSt>>,
    pub label: String,
}

impl Link {
    pub fn new(label: &str) -> Link {
        Link { st: Arc::new(Mutex::new(LinkSt { dirs: [Dir::default(), Dir::default()], cut: false })), label: label.to_string() }
    }
    pub fn set_frag(&self, dir: usize, frag: Vec<u8>) {
        self.st.lock().unwrap().dirs[dir].frag = frag;
    }
    pub fn set_cut_at(&self, dir: usize, at: Option<u64>) {
        self.st.lock().unwrap().dirs[dir].cut_at = at;
    }
    /// delay everything travelling in direction `dir` for `ms` of virtual time from now
    pub fn stall(&self, dir: usize, ms: u64) {
        self.st.lock().unwrap().dirs[dir].stall_until = Some(tokio::time::Instant::now() + std::time::Duration::from_millis(ms));
    }
    /// lose the connection now (both directions)
    pub fn cut(&self) {
        let wakers: Vec<Waker> = {
            let mut g = self.st.lock().unwrap();
            g.cut = true;
            g.dirs.iter_mut().filter_map(|d| d.reader_waker.take()).collect()
        };
        for w in wakers {
            w.wake();
        }
    }
    pub fn is_cut(&self) -> bool {
        self.st.lock().unwrap().cut
    }
    pub fn end(&self, side: usize) -> End {
        End { link: self.clone(), side }
    }
    pub fn raw(&self, side: usize) -> RawPeer {
        RawPeer { link: self.clone(), side, inbox: Arc::new(Mutex::new(Vec::new())) }
    }
    pub fn stats(&self, dir: usize) -> (u64, u64, usize, u64) {
        let g = self.st.lock().unwrap();
        let d = &g.dirs[dir];
        (d.written, d.delivered, d.max_requested, d.reads)
    }
}

/// One end of a link, handed to a node server
pub struct End {
    pub link: Link,
    pub side: usize,
}

impl ClusterBidiStream for End {
    fn split(self: Box<Self>) -> (BoxRead, BoxWrite) {
        (Box::new(LinkReader { link: self.link.clone(), side: self.side, sleep: None }), Box::new(LinkWriter { link: self.link.clone(), side: self.side }))
    }
    fn peer_label(&self) -> Option<String> {
        Some(format!("{}:{}", self.link.label, 1 - self.side))
    }
    fn local_label(&self) -> Option<String> {
        Some(format!("{}:{}", self.link.label, self.side))
    }
}

pub struct LinkReader {
    link: Link,
    side: usize,
    sleep: Option<Pin<Box<tokio::time::Sleep>>>,
}

impl tokio::io::AsyncRead for LinkReader {
    fn poll_read(self: Pin<&mut Self>, cx: &mut Context<'_>, buf: &mut tokio::io::ReadBuf<'_>) -> Poll<std::io::Result<()>> {
        let this = self.get_mut();
        let r = 1 - this.side;
        // network delay
        let until = {
            let g = this.link.st.lock().unwrap();
            if g.cut {
                None
            } else {
                g.dirs[r].stall_until
            }
        };
        if let Some(until) = until {
            if tokio::time::Instant::now() < until {
                let mut sl = this.sleep.take().filter(|s| s.deadline() == until).unwrap_or_else(|| Box::pin(tokio::time::sleep_until(until)));
                if std::future::Future::poll(sl.as_mut(), cx).is_pending() {
                    this.sleep = Some(sl);
                    // a cut must still wake us
                    this.link.st.lock().unwrap().dirs[r].reader_waker = Some(cx.waker().clone());
                    return Poll::Pending;
                }
            }
        }
        let self_side = this.side;
        let link = this.link.clone();
        let mut wake_other: Option<Waker> = None;
        let out = {
            let mut g = link.st.lock().unwrap();
            let cut = g.cut;
            {
                let d = &mut g.dirs[r];
                d.max_requested = d.max_requested.max(buf.remaining());
                d.reads += 1;
            }
            if cut {
                Poll::Ready(Ok(()))
            } else if g.dirs[r].cut_at.is_some_and(|c| g.dirs[r].delivered >= c) {
                g.cut = true;
                wake_other = g.dirs[self_side].reader_waker.take();
                Poll::Ready(Ok(()))
            } else {
                let d = &mut g.dirs[r];
                if d.buf.is_empty() {
                    if d.writer_gone {
                        Poll::Ready(Ok(()))
                    } else {
                        d.reader_waker = Some(cx.waker().clone());
                        Poll::Pending
                    }
                } else {
                    let mut n = d.buf.len().min(buf.remaining());
                    if !d.frag.is_empty() {
                        let f = d.frag[d.frag_pos % d.frag.len()] as usize;
                        d.frag_pos += 1;
                        if f > 0 {
                            n = n.min(f);
                        }
                    }
                    if let Some(c) = d.cut_at {
                        n = n.min((c - d.delivered) as usize);
                    }
                    for _ in 0..n {
                        let b = d.buf.pop_front().unwrap();
                        buf.put_slice(&[b]);
                    }
                    d.delivered += n as u64;
                    Poll::Ready(Ok(()))
                }
            }
        };
        if let Some(w) = wake_other {
            w.wake();
        }
        out
    }
}

impl Drop for LinkReader {
    fn drop(&mut self) {
        if let Ok(mut g) = self.link.st.lock() {
            g.dirs[1 - self.side].reader_gone = true;
        }
    }
}

pub struct LinkWriter {
    link: Link,
    side: usize,
}

fn push_bytes(link: &Link, side: usize, data: &[u8]) -> std::io::Result<usize> {
    let w = {
        let mut g = link.st.lock().unwrap();
        if g.cut || g.dirs[side].reader_gone {
            return Err(std::io::Error::new(std::io::ErrorKind::BrokenPipe, "link down"));
        }
        let d = &mut g.dirs[side];
        d.buf.extend(data.iter().copied());
        d.written += data.len() as u64;
        d.max_buffered = d.max_buffered.max(d.buf.len());
        d.reader_waker.take()
    };
    if let Some(w) = w {
        w.wake();
    }
    Ok(data.len())
}

impl tokio::io::AsyncWrite for LinkWriter {
    fn poll_write(self: Pin<&mut Self>, _cx: &mut Context<'_>, data: &[u8]) -> Poll<std::io::Result<usize>> {
        Poll::Ready(push_bytes(&self.link, self.side, data))
    }
    fn poll_flush(self: Pin<&mut Self>, _cx: &mut Context<'_>) -> Poll<std::io::Result<()>> {
        Poll::Ready(Ok(()))
    }
    fn poll_shutdown(self: Pin<&mut Self>, _cx: &mut Context<'_>) -> Poll<std::io::Result<()>> {
        close_writer(&self.link, self.side);
        Poll::Ready(Ok(()))
    }
}

fn close_writer(link: &Link, side: usize) {
    let w = {
        let Ok(mut g) = link.st.lock() else { return };
        g.dirs[side].writer_gone = true;
        g.dirs[side].reader_waker.take()
    };
    if let Some(w) = w {
        w.wake();
    }
}

impl Drop for LinkWriter {
    fn drop(&mut self) {
        close_writer(&self.link, self.side);
    }
}

// ---------------------------------------------------------------------------------
// raw peer: the harness plays one end of a link, byte by byte

pub fn frame(msg: &NetworkMessage) -> Vec<u8> {
    let payload = msg.encode_to_vec();
    let mut out = (payload.len() as u64).to_be_bytes().to_vec();
    out.extend_from_slice(&payload);
    out
}

/// independent frame splitter (u64 big-endian length prefix + protobuf payload)
pub fn split_frames(buf: &mut Vec<u8>) -> Vec<Result<NetworkMessage, String>> {
    let mut out = vec![];
    loop {
        if buf.len() < 8 {
            return out;
        }
        let len = u64::from_be_bytes(buf[..8].try_into().unwrap()) as usize;
        if buf.len() < 8 + len {
            return out;
        }
        let payload: Vec<u8> = buf[8..8 + len].to_vec();
        buf.drain(..8 + len);
        out.push(NetworkMessage::decode(payload.as_slice()).map_err(|e| e.to_string()));
    }
}

#[derive(Clone)]
pub struct RawPeer {
    pub link: Link,
    pub side: usize,
    inbox: Arc<Mutex<Vec<u8>>>,
}

impl RawPeer {
    pub fn send_bytes(&self, data: &[u8]) -> bool {
        push_bytes(&self.link, self.side, data).is_ok()
    }
    pub fn send(&self, msg: &NetworkMessage) -> bool {
        self.send_bytes(&frame(msg))
    }
    /// frames the node wrote so far and we have not looked at yet
    pub fn recv(&self) -> Vec<NetworkMessage> {
        let mut inbox = self.inbox.lock().unwrap();
        {
            let mut g = self.link.st.lock().unwrap();
            let d = &mut g.dirs[1 - self.side];
            let n = d.buf.len();
            inbox.extend(d.buf.drain(..));
            d.delivered += n as u64;
        }
        split_frames(&mut inbox).into_iter().filter_map(|r| r.ok()).collect()
    }
    pub fn node_hung_up(&self) -> bool {
        let g = self.link.st.lock().unwrap();
        g.cut || g.dirs[1 - self.side].writer_gone || g.dirs[self.side].reader_gone
    }
    pub fn hang_up(&self) {
        self.link.cut();
    }
    /// resolves when the node wrote something, or the link is finished
    pub fn readable(&self) -> Readable {
        Readable { peer: self.clone() }
    }
}

pub struct Readable {
    peer: RawPeer,
}

impl std::future::Future for Readable {
    type Output = ();
    fn poll(self: Pin<&mut Self>, cx: &mut Context<'_>) -> Poll<()> {
        let mut g = self.peer.link.st.lock().unwrap();
        let cut = g.cut;
        let gone_r = g.dirs[self.peer.side].reader_gone;
        let d = &mut g.dirs[1 - self.peer.side];
        if !d.buf.is_empty() || d.writer_gone || cut || gone_r {
            Poll::Ready(())
        } else {
            d.reader_waker = Some(cx.waker().clone());
            Poll::Pending
        }
    }
}

// ---------------------------------------------------------------------------------
// message constructors

pub fn flags() -> Option<auth::NodeFlags> {
    Some(auth::NodeFlags { version: 1 })
}

pub fn m_auth(m: auth::authentication_message::Msg) -> NetworkMessage {
    NetworkMessage { message: Some(meta::network_message::Message::Auth(auth::AuthenticationMessage { msg: Some(m) })) }
}
pub fn m_node(m: node::node_message::Msg) -> NetworkMessage {
    NetworkMessage { message: Some(meta::network_message::Message::Node(node::NodeMessage { msg: Some(m) })) }
}
pub fn m_control(m: control::control_message::Msg) -> NetworkMessage {
    NetworkMessage { message: Some(meta::network_message::Message::Control(control::ControlMessage { msg: Some(m) })) }
}

pub fn sha_digest(cookie: &str, challenge: u32) -> Vec<u8> {
    use sha2::Digest;
    let mut h = sha2::Sha256::new();
    h.update(challenge.to_be_bytes());
    h.update(cookie.as_bytes());
    h.finalize().to_vec()
}

// ---------------------------------------------------------------------------------
// probes

#[derive(RactorClusterMessage)]
pub enum ProbeMsg {
    Note(u32, u32),
    Data(u32, u32, Vec<u8>, String),
    #[rpc]
    Ask(u32, u32, RpcReplyPort<u64>),
    /// the reply is held back until `Release`, then the held calls are answered newest first
    #[rpc]
    AskHeld(u32, u32, RpcReplyPort<u64>),
    /// the reply port is dropped without an answer
    #[rpc]
    AskNever(u32, u32, RpcReplyPort<u64>),
    Release,
    /// like `Release`, oldest held call first
    ReleaseFifo,
}

#[derive(Clone, Debug, PartialEq, Eq)]
pub struct Got {
    pub probe: usize,
    /// "note" | "data" | "ask" | "askheld" | "asknever" | "release" | "sneaky"
    pub kind: &'static str,
    pub sender: u32,
    pub seq: u32,
    pub blob: Vec<u8>,
    pub text: String,
}

pub type GotLog = Arc<Mutex<Vec<Got>>>;

pub fn reply_val(probe: usize, sender: u32, seq: u32) -> u64 {
    ((probe as u64) << 44) | ((sender as u64) << 22) | seq as u64
}

pub struct Probe {
    pub idx: usize,
    pub got: GotLog,
    /// a group the actor joins from its own pre_start (the usual ractor pattern)
    pub pre_join: Option<String>,
}

pub struct ProbeSt {
    held: Vec<(u32, u32, RpcReplyPort<u64>)>,
}

#[cfg_attr(feature = "async-trait", ractor::async_trait)]
impl Actor for Probe {
    type Msg = ProbeMsg;
    type State = ProbeSt;
    type Arguments = ();
    async fn pre_start(&self, m: ActorRef<ProbeMsg>, _a: ()) -> Result<ProbeSt, ActorProcessingErr> {
        if let Some(g) = &self.pre_join {
            ractor::pg::join(g.clone(), vec![m.get_cell()]);
        }
        Ok(ProbeSt { held: vec![] })
    }
    async fn handle(&self, _m: ActorRef<ProbeMsg>, msg: ProbeMsg, st: &mut ProbeSt) -> Result<(), ActorProcessingErr> {
        let rec = |kind: &'static str, sender: u32, seq: u32, blob: Vec<u8>, text: String| {
            log(Ev::Note(format!("probe{} got {kind} from {sender} seq {seq}", self.idx)));
            self.got.lock().unwrap().push(Got { probe: self.idx, kind, sender, seq, blob, text });
        };
        match msg {
            ProbeMsg::Note(s, q) => rec("note", s, q, vec![], String::new()),
            ProbeMsg::Data(s, q, b, t) => rec("data", s, q, b, t),
            ProbeMsg::Ask(s, q, port) => {
                rec("ask", s, q, vec![], String::new());
                let _ = port.send(reply_val(self.idx, s, q));
            }
            ProbeMsg::AskHeld(s, q, port) => {
                rec("askheld", s, q, vec![], String::new());
                st.held.push((s, q, port));
            }
            ProbeMsg::AskNever(s, q, port) => {
                rec("asknever", s, q, vec![], String::new());
                drop(port);
            }
            ProbeMsg::Release => {
                rec("release", 0, 0, vec![], String::new());
                while let Some((s, q, port)) = st.held.pop() {
                    let _ = port.send(reply_val(self.idx, s, q));
                }
            }
            ProbeMsg::ReleaseFifo => {
                rec("release", 0, 0, vec![], String::new());
                for (s, q, port) in st.held.drain(..) {
                    let _ = port.send(reply_val(self.idx, s, q));
                }
            }
        }
        Ok(())
    }
}

/// An actor that does NOT support remoting but would happily decode a serialized message
/// if one were handed to it: whatever reaches it through a session is visible.
pub enum SneakyMsg {
    Local,
    FromWire(String, Vec<u8>),
}

impl ractor::Message for SneakyMsg {
    fn serializable() -> bool {
        false
    }
    fn deserialize(bytes: ractor::message::SerializedMessage) -> Result<Self, ractor::message::BoxedDowncastErr> {
        match bytes {
            ractor::message::SerializedMessage::Cast { variant, args, .. } => Ok(SneakyMsg::FromWire(variant, args)),
            ractor::message::SerializedMessage::Call { variant, args, .. } => Ok(SneakyMsg::FromWire(variant, args)),
            _ => Err(ractor::message::BoxedDowncastErr),
        }
    }
}

pub struct Sneaky {
    pub idx: usize,
    pub got: GotLog,
}

#[cfg_attr(feature = "async-trait", ractor::async_trait)]
impl Actor for Sneaky {
    type Msg = SneakyMsg;
    type State = ();
    type Arguments = ();
    async fn pre_start(&self, _m: ActorRef<SneakyMsg>, _a: ()) -> Result<(), ActorProcessingErr> {
        Ok(())
    }
    async fn handle(&self, _m: ActorRef<SneakyMsg>, msg: SneakyMsg, _st: &mut ()) -> Result<(), ActorProcessingErr> {
        if let SneakyMsg::FromWire(variant, args) = msg {
            log(Ev::Note(format!("sneaky{} got wire message {variant}", self.idx)));
            self.got.lock().unwrap().push(Got { probe: self.idx, kind: "sneaky", sender: 0, seq: 0, blob: args, text: variant });
        }
        Ok(())
    }
}

// ---------------------------------------------------------------------------------
// nodes

#[derive(Clone, Copy, Debug, PartialEq, Eq, Serialize, Deserialize)]
pub enum EvKind {
    Opened,
    Authenticated,
    Ready,
    Disconnected,
}

#[derive(Clone, Debug)]
pub struct EvtRec {
    pub kind: EvKind,
    pub actor: ActorId,
    pub actor_ref: ActorRef<ractor_cluster::NodeSessionMessage>,
    pub peer_addr: String,
    pub is_server: bool,
    pub peer_name: Option<String>,
}

pub type EvtLog = Arc<Mutex<Vec<EvtRec>>>;

struct Sub {
    node: usize,
    log: EvtLog,
}

impl Sub {
    fn rec(&self, kind: EvKind, ses: NodeServerSessionInformation) {
        log(Ev::Note(format!("node{} event {kind:?} session {} peer_addr {} server={}", self.node, ses.actor.get_id(), ses.peer_addr, ses.is_server)));
        self.log.lock().unwrap().push(EvtRec {
            kind,
            actor: ses.actor.get_id(),
            actor_ref: ses.actor.clone(),
            peer_addr: ses.peer_addr.clone(),
            is_server: ses.is_server,
            peer_name: ses.peer_name.as_ref().map(|n| n.name.clone()),
        });
    }
}

impl NodeEventSubscription for Sub {
    fn node_session_opened(&self, ses: NodeServerSessionInformation) {
        self.rec(EvKind::Opened, ses)
    }
    fn node_session_disconnected(&self, ses: NodeServerSessionInformation) {
        self.rec(EvKind::Disconnected, ses)
    }
    fn node_session_authenticated(&self, ses: NodeServerSessionInformation) {
        self.rec(EvKind::Authenticated, ses)
    }
    fn node_session_ready(&self, ses: NodeServerSessionInformation) {
        self.rec(EvKind::Ready, ses)
    }
}

pub struct Node {
    pub idx: usize,
    pub name: String,
    pub server: ActorRef<NodeServerMessage>,
    pub handle: JoinHandle<()>,
    pub events: EvtLog,
}

pub const HOST: &str = "host";

/// `full_name` is "name@host"
pub async fn spawn_node(idx: usize, full_name: &str, cookie: &str, max_frame: Option<u64>) -> Node {
    let (name, host) = full_name.split_once('@').unwrap_or((full_name, HOST));
    let mut ns = NodeServer::new(0, cookie.to_string(), name.to_string(), host.to_string(), None, None);
    if let Some(m) = max_frame {
        ns = ns.with_max_inbound_frame_size(m);
    }
    let (server, handle) = Actor::spawn(None, ns, ()).await.expect("node server starts");
    let events: EvtLog = Arc::new(Mutex::new(vec![]));
    server
        .cast(NodeServerMessage::SubscribeToEvents { id: "rv".to_string(), subscription: Box::new(Sub { node: idx, log: events.clone() }) })
        .expect("subscribe");
    // mailbox barrier: subscription installed, listener port known
    let _ = ractor::call!(server, NodeServerMessage::GetSessions);
    Node { idx, name: format!("{name}@{host}"), server, handle, events }
}

impl Node {
    pub fn open(&self, end: End, is_server: bool) {
        let _ = self.server.cast(NodeServerMessage::ConnectionOpenedExternal { stream: Box::new(end), is_server });
    }
    pub async fn sessions(&self) -> Option<Vec<NodeServerSessionInformation>> {
        match ractor::call!(self.server, NodeServerMessage::GetSessions) {
            Ok(m) => {
                let mut v: Vec<_> = m.into_values().collect();
                v.sort_by_key(|s| s.node_id);
                Some(v)
            }
            Err(_) => None,
        }
    }
    pub fn evts(&self) -> Vec<EvtRec> {
        self.events.lock().unwrap().clone()
    }
    /// sessions that were reported ready and not (yet) reported disconnected
    pub fn ready_live(&self) -> Vec<EvtRec> {
        let ev = self.evts();
        ev.iter()
            .filter(|e| e.kind == EvKind::Ready)
            .filter(|e| !ev.iter().any(|d| d.kind == EvKind::Disconnected && d.actor == e.actor))
            .cloned()
            .collect()
    }
}

/// make the node burn `n` node ids (sessions on a link that is already dead), so that remote
/// proxies created by different node servers of this process get different `ActorId`s
pub fn burn_node_ids(node: &Node, n: usize) {
    for i in 0..n {
        let l = Link::new(&format!("burn{i}"));
        l.cut();
        node.open(l.end(0), true);
    }
}

// ---------------------------------------------------------------------------------
// driving helpers

/// run `fut` as a gated task until it finishes
pub async fn run_task<T: Send + 'static>(env: &mut Env, max_steps: u64, fut: impl std::future::Future<Output = T> + Send + 'static) -> Result<T, DriveEnd> {
    let h = ractor::concurrency::spawn(fut);
    let end = {
        let hr = &h;
        drive(&env.gate, &mut env.sched, max_steps, || hr.is_finished(), |_, _| {}).await
    };
    if h.is_finished() {
        h.await.map_err(|_| DriveEnd::Stuck)
    } else {
        h.abort();
        Err(end)
    }
}

/// run several gated tasks until all of them finish
pub async fn run_tasks(env: &mut Env, max_steps: u64, futs: Vec<Pin<Box<dyn std::future::Future<Output = ()> + Send + 'static>>>) -> DriveEnd {
    let hs: Vec<JoinHandle<()>> = futs.into_iter().map(ractor::concurrency::spawn).collect();
    let end = {
        let hr = &hs;
        drive(&env.gate, &mut env.sched, max_steps, || hr.iter().all(|h| h.is_finished()), |_, _| {}).await
    };
    for h in hs {
        if !h.is_finished() {
            h.abort();
        }
    }
    end
}

/// Let the system go quiet: run everything runnable, let `quiet_ms` of virtual time pass, repeat
/// until a whole window passes without a single step. (Keep-alive pings make the system never
/// fully idle, so "quiet" is a window, not a fixpoint.)
pub async fn settle_quiet(env: &mut Env, quiet_ms: u64, max_rounds: u32) -> bool {
    let gate = env.gate.clone();
    for _ in 0..max_rounds {
        if drive(&env.gate, &mut env.sched, 40_000, || gate.runnable().is_empty(), |_, _| {}).await == DriveEnd::Budget {
            return false;
        }
        let before = gate.step();
        tokio::time::sleep(std::time::Duration::from_millis(quiet_ms)).await;
        if drive(&env.gate, &mut env.sched, 40_000, || gate.runnable().is_empty(), |_, _| {}).await == DriveEnd::Budget {
            return false;
        }
        if gate.step() == before {
            return true;
        }
    }
    false
}

/// group name of the case
pub fn pid_of(id: ActorId) -> u64 {
    id.pid()
}

/// all members of a group, split into (local pids, remote (node_id, pid))
pub fn group_view(group: &str) -> (Vec<u64>, Vec<(u64, u64)>) {
    let mut local = vec![];
    let mut remote = vec![];
    for c in ractor::pg::get_members(&group.to_string()) {
        match c.get_id() {
            ActorId::Local(p) => local.push(p),
            ActorId::Remote { node_id, pid } => remote.push((node_id, pid)),
        }
    }
    local.sort();
    remote.sort();
    (local, remote)
}

pub fn remote_member(group: &str, node_id: u64, pid: u64) -> Option<ractor::ActorCell> {
    ractor::pg::get_members(&group.to_string()).into_iter().find(|c| c.get_id() == ActorId::Remote { node_id, pid })
}

pub type FrameLog = BTreeMap<String, u64>;

// ---------------------------------------------------------------------------------
// an honest raw peer

/// argument bytes of `ProbeMsg::Note(sender, seq)` / `ProbeMsg::Ask(sender, seq, _)`
pub fn note_args(sender: u32, seq: u32) -> Vec<u8> {
    let mut args = vec![];
    for v in [sender, seq] {
        args.extend_from_slice(&4u64.to_be_bytes());
        args.extend_from_slice(&v.to_be_bytes());
    }
    args
}

pub fn cast_note(to: u64, sender: u32, seq: u32) -> NetworkMessage {
    m_node(node::node_message::Msg::Cast(node::Cast { to, what: note_args(sender, seq), variant: "Note".to_string(), metadata: None }))
}

/// Dial handshake of a peer that knows the cookie. Returns the non-auth frames received meanwhile,
/// or None when the node did not complete the handshake.
pub async fn honest_dial(peer: &RawPeer, my_name: &str, cookie: &str, nonce: u64) -> Option<Vec<NetworkMessage>> {
    let mut other = vec![];
    peer.send(&m_auth(auth::authentication_message::Msg::Name(auth::NameMessage { name: my_name.to_string(), flags: flags(), connection_string: format!("{}:1", my_name.replace('@', "-")), connection_id: nonce })));
    let mine: u32 = 0x00c0_ffee;
    let mut challenge: Option<u32> = None;
    let mut acked = false;
    for _ in 0..40 {
        for f in peer.recv() {
            match &f.message {
                Some(meta::network_message::Message::Auth(a)) => match &a.msg {
                    Some(auth::authentication_message::Msg::ServerChallenge(c)) => {
                        challenge = Some(c.challenge);
                        peer.send(&m_auth(auth::authentication_message::Msg::ClientChallenge(auth::ChallengeReply { challenge: mine, digest: sha_digest(cookie, c.challenge) })));
                    }
                    Some(auth::authentication_message::Msg::ServerAck(k)) => {
                        if k.digest == sha_digest(cookie, mine) {
                            acked = true;
                        }
                    }
                    _ => {}
                },
                _ => other.push(f),
            }
        }
        if acked {
            return Some(other);
        }
        if peer.node_hung_up() {
            return None;
        }
        let _ = tokio::time::timeout(std::time::Duration::from_millis(20), peer.readable()).await;
    }
    let _ = challenge;
    None
}
