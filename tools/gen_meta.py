#!/usr/bin/env python3
"""Writes /verif/seeded/<id>/meta.json from the agent's notes, my confirmation log and the detection matrix."""
import json, os, re, sys
base='/verif/seeded'
TITLE_OVERRIDE={'C16-m3':'v2 filtering subscriber: a converter returning None reports the subscriber as gone (subscription dropped at the first filtered message)','C17-m3':'an authentication message without content is ignored instead of closing the session','C18-m3':'is_elected ranks the session against unauthenticated claimants too (ready event withheld while an impostor out-ranks the real link)','C20-m3':'group joins are announced to the peer only for members that are already Running (an actor joining from its own pre_start is never mirrored)','C13-m3':'a worker that dies while the factory is draining is retired together with the jobs parked on it'}
detect={}
if os.path.exists(base+'/detect.tsv'):
    for l in open(base+'/detect.tsv'):
        f=l.rstrip('\n').split('\t')
        if len(f)>=4: detect.setdefault(f[0],[]).append({"check":f[1]+" quick","patch_used":f[2],"result":f[3].strip()})
for d in sorted(os.listdir(base)):
    p=os.path.join(base,d)
    if not os.path.isdir(p): continue
    prop=d.split('-')[0]
    notes=open(p+'/agent-notes.md').read() if os.path.exists(p+'/agent-notes.md') else ''
    title=notes.splitlines()[0].lstrip('# ').strip() if notes else d
    title=TITLE_OVERRIDE.get(d,title)
    def section(rx):
        m=re.search(r'^## (?:'+rx+r')[^\n]*\n(.*?)(?=^## |\Z)', notes, re.S|re.M|re.I)
        return re.sub(r'\s+',' ',m.group(1)).strip() if m else ''
    needs=section(r'What it needs')
    breaks=section(r'Which part|Part of the property')
    change=section(r'(?:The )?change')
    conf=open(p+'/confirm.txt').read() if os.path.exists(p+'/confirm.txt') else ''
    def part(a,b):
        m=re.search(re.escape(a)+r'\n(.*?)(?='+b+r'|\Z)',conf,re.S)
        return m.group(1) if m else ''
    wo=part('--- demo WITHOUT patch','--- demo WITH patch')
    wi=part('--- demo WITH patch','--- existing suite')
    suites=re.findall(r'Summary \[.*?\] (\d+) tests run: (\d+) passed(?:, (\d+) failed)?',conf)
    files=sorted(set(re.findall(r'^\+\+\+ b/(\S+)',open(p+'/patch.diff').read(),re.M)))
    demo=[f for f in os.listdir(p) if f.endswith('.rs')]
    pkg='ractor_cluster' if any('ractor_cluster' in f for f in files) and 'cargo test' in notes and '-p ractor_cluster' in (notes+conf) else 'ractor'
    m=re.search(r'-p (\S+) --test (\S+)',conf+notes)
    meta={
     "id":d,"property":prop,"title":title,
     "author":"independent sub-agent given only the text of property "+prop+" and a scratch worktree of slawlor/ractor (nothing from /verif)",
     "files_changed":files,
     "what_the_change_does":change[:1200],
     "part_of_property_broken":breaks[:1200],
     "needs_to_manifest":needs[:2000],
     "demonstration":{"file":demo[0] if demo else None,
        "how_to_run":"copy the file to <pkg>/tests/<name>.rs in a scratch worktree and run: cargo test --offline "+(("-p %s --test %s"%(m.group(1),m.group(2).rstrip('`'))) if m else "--test <name>")},
     "confirmed_by_me":{
        "tool":"/verif/tools/confirm_seed.sh (+ tools/resuite.sh where the suite was re-run) in a scratch worktree /tmp/wt/"+prop+" of the pinned commit, removed afterwards",
        "patch_applies":"patch applies: yes" in conf,
        "demo_without_patch":"passes" if ('test result: ok' in wo and 'FAILED' not in wo) else "see confirm.txt",
        "demo_with_patch":"fails" if ('FAILED' in wi or 'abort' in wi.lower() or 'SIGABRT' in wi) else "see confirm.txt",
        "existing_suite_with_patch":[{"run":int(a),"passed":int(b),"failed":int(c or 0)} for a,b,c in suites],
        "log":"confirm.txt"},
     "applies_to_current_tree":"patch.ported.diff (hand-ported: the original hunk touches a line next to a later verif hook)" if os.path.exists(p+'/patch.ported.diff') else "patch.diff (tools/withpatch.sh falls back to 3-way / fuzz when hook lines moved the context)",
     "how_to_apply":"git -C /repo apply <patch> ; undo: git -C /repo checkout -- .   (or /verif/tools/withpatch.sh <patch> <command>)",
     "detected_by":detect.get(d,[]),
    }
    json.dump(meta,open(p+'/meta.json','w'),indent=1)
print("meta.json written for",len([d for d in os.listdir(base) if os.path.isdir(os.path.join(base,d))]),"seeded changes")
