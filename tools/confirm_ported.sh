#!/bin/bash
# usage: confirm_ported.sh <seed-dir-name> <test-name>  — confirms seeded/<dir>/patch.ported.diff against /repo's HEAD in a
# scratch worktree (removed afterwards): demo passes without it, fails with it, the 307-test suite passes with it.
D=$1; T=$2; WT=/tmp/wt/port-$D
git -C /repo worktree add -q --detach $WT HEAD || exit 9
cd $WT; export CARGO_NET_OFFLINE=true CARGO_TARGET_DIR=$WT/target
{
echo; echo "### ported patch on $(git rev-parse --short HEAD) at $(date -u +%FT%TZ)"
cp /verif/seeded/$D/demo.rs ractor/tests/$T.rs
echo "--- demo WITHOUT patch"; cargo test --offline -p ractor --test $T 2>&1 | grep -E "^test result|^test .*(ok|FAILED)$|error(\[|:)" | head
git apply /verif/seeded/$D/patch.ported.diff || echo "PORTED PATCH DOES NOT APPLY"
echo "--- demo WITH ported patch"; cargo test --offline -p ractor --test $T 2>&1 | grep -E "^test result|^test .*(ok|FAILED)$|error(\[|:)" | head
rm ractor/tests/$T.rs
echo "--- existing suite WITH ported patch"; cargo nextest run --workspace --no-fail-fast --tool-config-file pb:/w/lib/nextest.toml --profile pb --test-threads 8 --offline 2>&1 | grep -E "Summary|FAIL |error(\[|:)" | head
} >> /verif/seeded/$D/confirm.txt 2>&1
cd /; git -C /repo worktree remove --force $WT; git -C /repo worktree prune
tail -12 /verif/seeded/$D/confirm.txt
