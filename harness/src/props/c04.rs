//! C04 — failures are contained and reported to the supervisor exactly once (E1 + abort injection)

use std::collections::{HashMap, HashSet};

use proptest::prelude::*;
use serde::{Deserialize, Serialize};

use crate::core::*;
use crate::gate::{drive, DriveEnd};
use crate::gen;
use crate::runner::*;

pub struct C04;

#[derive(Clone, Debug, Serialize, Deserialize)]
pub struct Case {
    pub sc: Scenario,
    /// number of children (actors 1..=k); k+1 = grandchild of child 1, k+2 = bystander U, k+3 = monitor M
    pub k: u8,
}

#[derive(Clone, Debug)]
enum Cause {
    None,
    FailIn(Cb, bool), // panic?
    Stop,
    StopReason,
    Drain,
    Kill,
    Abort,
}

fn cause_strategy() -> BoxedStrategy<Cause> {
    prop_oneof![
        1 => Just(Cause::None),
        2 => (prop_oneof![Just(Cb::PostStart), Just(Cb::Handle), Just(Cb::Handle), Just(Cb::Sup), Just(Cb::PostStop), Just(Cb::PreStart)], any::<bool>()).prop_map(|(cb, p)| Cause::FailIn(cb, p)),
        1 => Just(Cause::Stop),
        1 => Just(Cause::StopReason),
        1 => Just(Cause::Drain),
        1 => Just(Cause::Kill),
        2 => Just(Cause::Abort),
    ]
    .boxed()
}

fn awaits(max: usize) -> BoxedStrategy<Vec<Act>> {
    proptest::collection::vec(prop_oneof![3 => Just(Act::Yield), 1 => (0u16..3).prop_map(Act::Sleep)], 0..=max).boxed()
}

pub fn strategy(tier: Tier) -> BoxedStrategy<Case> {
    let max_sched = if tier == Tier::Quick { 128 } else { 256 };
    (1u8..=3)
        .prop_flat_map(move |k| {
            let child = (
                prop_oneof![3 => Just(Variant::Linked), 2 => Just(Variant::TlLinked), 1 => Just(Variant::LinkedInstant), 1 => Just(Variant::TlLinkedInstant)],
                cause_strategy(),
                awaits(2),
                0usize..10,
            );
            (
                Just(k),
                proptest::collection::vec(child, k as usize),
                (awaits(2), awaits(2)), // S: handle script, sup script
                proptest::collection::vec(prop_oneof![Just(0u8), Just(1u8), Just(2u8), Just(3u8)], 0..=6), // casts by client 2: target selector
                any::<bool>(), // monitor
                prop_oneof![3 => Just(None), 1 => (0usize..12).prop_map(Some)], // drain S after that many yields
                gen::schedule(max_sched),
            )
        })
        .prop_map(|(k, children, (s_handle, s_sup), feed, with_monitor, drain_s, schedule)| {
            let g = k + 1;
            let u = k + 2;
            let m = k + 3;
            let mut specs = vec![ActorSpec { variant: Some(Variant::Spawn), handle: vec![s_handle], sup: vec![s_sup], sup_stops: false, ..Default::default() }];
            let mut c0 = vec![Op::Spawn(0), Op::Spawn(u), Op::Spawn(m)];
            let mut c1: Vec<Op> = vec![];
            let mut c2: Vec<Op> = vec![];
            for (i, (variant, cause, pre_awaits, delay)) in children.iter().enumerate() {
                let idx = (i + 1) as u8;
                let mut spec = ActorSpec { variant: Some(*variant), parent: Some(0), sup_stops: false, ..Default::default() };
                spec.pre_start = pre_awaits.clone();
                spec.handle = vec![vec![Act::Yield]];
                let mut ops_after: Vec<Op> = vec![];
                match cause {
                    Cause::None => {}
                    Cause::FailIn(cb, panic) => {
                        let bad = if *panic { Act::Panic } else { Act::Fail };
                        match cb {
                            Cb::PreStart => spec.pre_start.push(bad),
                            Cb::PostStart => spec.post_start = vec![Act::Yield, bad],
                            Cb::Handle => {
                                spec.handle = vec![vec![Act::Yield], vec![Act::Yield, bad]];
                                ops_after.push(Op::Cast { to: idx, seq: 1 });
                                ops_after.push(Op::Cast { to: idx, seq: 2 });
                                ops_after.push(Op::Cast { to: idx, seq: 3 });
                            }
                            Cb::Sup => {
                                if idx == 1 {
                                    spec.sup = vec![vec![], vec![Act::Yield, bad]];
                                    ops_after.push(Op::NotifySup { child: g, kind: SupKind::Started });
                                } else {
                                    spec.post_start = vec![bad];
                                }
                            }
                            Cb::PostStop => {
                                spec.post_stop = vec![Act::Yield, bad];
                                ops_after.push(Op::Stop(idx));
                            }
                        }
                    }
                    Cause::Stop => ops_after.push(Op::Stop(idx)),
                    Cause::StopReason => ops_after.push(Op::StopReason(idx)),
                    Cause::Drain => ops_after.push(Op::Drain(idx)),
                    Cause::Kill => ops_after.push(Op::Kill(idx)),
                    Cause::Abort => ops_after.push(Op::AbortTask(idx)),
                }
                specs.push(spec);
                c0.push(Op::Spawn(idx));
                if variant.is_instant() {
                    c0.push(Op::AwaitStart(idx));
                }
                if with_monitor {
                    c0.push(Op::Monitor { who: m, target: idx });
                }
                for _ in 0..*delay {
                    c1.push(Op::Yield);
                }
                c1.extend(ops_after);
            }
            // grandchild under child 1, bystander, monitor
            specs.push(ActorSpec { variant: Some(Variant::Linked), parent: Some(1), ..Default::default() });
            specs.push(ActorSpec { variant: Some(Variant::Spawn), ..Default::default() });
            specs.push(ActorSpec { variant: Some(Variant::Spawn), sup_stops: false, ..Default::default() });
            c0.push(Op::Spawn(g));
            for t in feed {
                let to = match t {
                    0 => 0,
                    x => ((x - 1) % k) + 1,
                };
                c2.push(Op::Cast { to, seq: 100 + c2.len() as u32 });
                c2.push(Op::Yield);
            }
            let mut clients = vec![c0, c1, c2];
            if let Some(d) = drain_s {
                // give S a backlog, then drain it: it stays alive (Draining) while it works it off
                let mut c3 = vec![Op::Yield; d];
                for q in 0..4 {
                    c3.push(Op::Cast { to: 0, seq: 900 + q });
                }
                c3.push(Op::Drain(0));
                clients.push(c3);
            }
            Case { sc: Scenario { specs, clients, schedule }, k }
        })
        .boxed()
}

struct Run {
    trace: Vec<Event>,
    end: Vec<DriveEnd>,
    client_panic: Option<String>,
    /// per child: join handle state at the probe point: None = no handle, Some(Err) = pending, Some(Ok(res))
    handles: HashMap<usize, Result<Res, ()>>,
    aborted: HashSet<usize>,
    spawn_ok: HashSet<usize>,
    probe_pos: usize,
}

fn execute(case: &Case) -> Run {
    let case = case.clone();
    run_in_runtime(&case.sc.schedule.clone(), |mut env| async move {
        let sc = &case.sc;
        let k = case.k as usize;
        let w = World::new(sc.specs.clone());
        if sc.specs.iter().any(|s| s.variant().is_tl()) {
            w.init_tl();
        }
        let mut ends = vec![];
        let sampler = std::rc::Rc::new(std::cell::RefCell::new(StatusSampler::default()));
        let (w2, s2) = (w.clone(), sampler.clone());
        let (end_main, handles) = run_clients(&mut env, &w, &sc.clients, 20_000, move |_, _| s2.borrow_mut().sample(&w2)).await;
        ends.push(end_main);
        let mut client_panic = None;
        for h in handles {
            if h.is_finished() {
                if let Err(e) = h.await {
                    if e.is_panic() {
                        client_panic = Some(format!("{e:?}"));
                    }
                }
            }
        }
        if end_main == DriveEnd::Done {
            let (w3, s3) = (w.clone(), sampler.clone());
            settle_with(&mut env, move |_, _| s3.borrow_mut().sample(&w3)).await;
        }
        sampler.borrow_mut().sample(&w);
        log(Ev::Note("kill-children".into()));
        for a in 1..=k + 1 {
            if let Some(c) = w.cell(a) {
                c.kill();
                // run the child to its end right away so that the sampler sees the order of deaths
                let (w3, s3) = (w.clone(), sampler.clone());
                let gate = env.gate.clone();
                let _ = drive(&env.gate, &mut env.sched, 5_000, || gate.runnable().is_empty(), move |_, _| s3.borrow_mut().sample(&w3)).await;
            }
        }
        {
            let (w3, s3) = (w.clone(), sampler.clone());
            settle_with(&mut env, move |_, _| s3.borrow_mut().sample(&w3)).await;
        }
        sampler.borrow_mut().sample(&w);
        // finish pending instant starts so that their inner handles are known
        let mut hres = HashMap::new();
        let mut aborted = HashSet::new();
        let mut spawn_ok = HashSet::new();
        for a in 1..=k {
            let (h, sh, ab, sres) = {
                let mut slots = w.slots.lock().unwrap();
                (slots[a].handle.take(), slots[a].start_handle.take(), slots[a].aborted, slots[a].spawn_res.clone())
            };
            if ab {
                aborted.insert(a);
            }
            let mut started = sres == Some(Res::Ok) && !sc.specs[a].variant().is_instant();
            let mut h = h;
            if let Some(sh) = sh {
                if sh.is_finished() {
                    if let Ok(Ok(inner)) = sh.await {
                        h = Some(inner);
                        started = true;
                    }
                }
            } else if sc.specs[a].variant().is_instant() && h.is_some() {
                started = true;
            }
            if started {
                spawn_ok.insert(a);
            }
            if let Some(h) = h {
                if h.is_finished() {
                    let r = match h.await {
                        Ok(()) => Res::Ok,
                        Err(e) => Res::Err(if e.is_cancelled() { "cancelled".into() } else { "panic".into() }),
                    };
                    hres.insert(a, Ok(r));
                } else {
                    hres.insert(a, Err(()));
                }
            }
        }
        let probe_pos = trace_len();
        // bystander must still answer
        let u = (k + 2) as u8;
        let (end_probe, _) = run_clients(&mut env, &w, &[vec![Op::Probe(u), Op::Probe(0)]], 5_000, |_, _| {}).await;
        ends.push(end_probe);
        log(Ev::Note("final-sweep".into()));
        ends.push(quiesce(&mut env, &w, true, 20_000).await);
        Run { trace: take_trace(), end: ends, client_panic, handles: hres, aborted, spawn_ok, probe_pos }
    })
}

#[derive(Default, Debug)]
struct ChildFacts {
    failures: Vec<(usize, Cb, bool)>, // pos, cb, panic
    stop_at: Option<usize>,
    stop_reason_at: Option<usize>,
    drain_at: Option<usize>,
    kill_at: Option<usize>,
    abort_at: Option<usize>,
    post_start_ok: bool,
}

pub fn check(case: &Case, run: &Run) -> Result<(bool, Vec<String>), Violation> {
    let sc = &case.sc;
    let k = case.k as usize;
    let (g, u, m) = (k + 1, k + 2, k + 3);
    let tr = &run.trace;
    let op_of = |c: usize, i: usize| sc.clients.get(c).and_then(|ops| ops.get(i));
    let mut facts: HashMap<usize, ChildFacts> = HashMap::new();
    let mut monitored: HashMap<usize, usize> = HashMap::new(); // target -> pos of monitor op end
    let mut labels = vec![];
    let kill_children_pos = tr.iter().position(|e| matches!(&e.ev, Ev::Note(n) if n == "kill-children")).unwrap_or(tr.len());
    // pass 1: facts
    for (pos, e) in tr.iter().enumerate() {
        match &e.ev {
            Ev::Exit { a, cb, ok } => {
                let f = facts.entry(*a).or_default();
                if !ok {
                    f.failures.push((pos, *cb, false));
                } else if *cb == Cb::PostStart {
                    f.post_start_ok = true;
                }
            }
            Ev::Unwind { a, cb, panicking: true } => facts.entry(*a).or_default().failures.push((pos, *cb, true)),
            Ev::OpStart { c, i } => {
                // sync ops take effect between OpStart and OpEnd; use OpStart as the earliest point
                match op_of(*c, *i) {
                    Some(Op::Stop(t)) => {
                        facts.entry(*t as usize).or_default().stop_at.get_or_insert(pos);
                    }
                    Some(Op::StopReason(t)) => {
                        facts.entry(*t as usize).or_default().stop_reason_at.get_or_insert(pos);
                    }
                    Some(Op::Drain(t)) => {
                        facts.entry(*t as usize).or_default().drain_at.get_or_insert(pos);
                    }
                    Some(Op::Kill(t)) => {
                        facts.entry(*t as usize).or_default().kill_at.get_or_insert(pos);
                    }
                    Some(Op::AbortTask(t)) => {
                        facts.entry(*t as usize).or_default().abort_at.get_or_insert(pos);
                    }
                    _ => {}
                }
            }
            Ev::OpEnd { c, i, res } if *res != Res::Skipped => {
                if let Some(Op::Monitor { target, .. }) = op_of(*c, *i) {
                    monitored.entry(*target as usize).or_insert(pos);
                }
            }
            _ => {}
        }
    }
    // an exiting supervisor kills its children: S's first sampled Stopping status is a kill cause too
    let s_exit = tr.iter().position(|e| matches!(&e.ev, Ev::Status { a: 0, st } if *st >= 5)).unwrap_or(usize::MAX);
    for a in 1..=k + 1 {
        let f = facts.entry(a).or_default();
        let kpos = f.kill_at.unwrap_or(usize::MAX).min(kill_children_pos).min(s_exit);
        f.kill_at = Some(kpos);
    }
    // a child of an exiting parent is killed by it: G under child 1
    // pass 2: supervision logs
    let mut terminal: HashMap<(usize, i64), Vec<usize>> = HashMap::new(); // (observer, subject) -> positions
    let mut started: HashMap<(usize, i64), Vec<usize>> = HashMap::new();
    for (pos, e) in tr.iter().enumerate() {
        if let Ev::Enter { a, cb: Cb::Sup, tag } = &e.ev {
            let (who, is_terminal) = match tag {
                Tag::Started { who } => (*who, false),
                Tag::Terminated { who, .. } | Tag::Failed { who, .. } => (*who, true),
                _ => continue,
            };
            // relation: who may `a` hear about?
            let synthetic = match tag {
                Tag::Terminated { reason: Some(r), .. } => r.starts_with("syn-"),
                Tag::Failed { text, .. } => text.starts_with("syn-"),
                _ => false,
            };
            let allowed = (*a == 0 && who >= 1 && (who as usize) <= k)
                || (*a == 1 && who == g as i64)
                || (*a == m && who >= 1 && (who as usize) <= k && monitored.contains_key(&(who as usize)));
            if !allowed {
                return Err(viol(
                    "C04/event-for-stranger",
                    format!("actor {a} received lifecycle event {tag:?} at #{pos} about an actor it neither supervises nor monitors"),
                ));
            }
            if synthetic {
                continue;
            }
            if is_terminal {
                terminal.entry((*a, who)).or_default().push(pos);
            } else {
                started.entry((*a, who)).or_default().push(pos);
            }
            // class check for real terminal events about children, as seen by S or M
            if is_terminal && who >= 1 && (who as usize) <= k {
                let child = who as usize;
                let f = facts.get(&child).unwrap();
                let is_tl = sc.specs[child].variant().is_tl();
                let ok = match tag {
                    Tag::Failed { text, .. } => f.failures.iter().any(|(q, cb, panic)| {
                        *q < pos && *cb != Cb::PreStart && text.contains(&format!("{} a{child} {cb:?}", if *panic { "boom" } else { "fail" }))
                    }),
                    Tag::Terminated { has_state, reason, .. } => {
                        let state_ok_graceful = if *a == 0 { *has_state == !is_tl } else { !*has_state };
                        match reason.as_deref() {
                            // aborting the *start task* of a thread-local instant spawn after the spawner finished
                            // the start kills the (otherwise un-owned) actor
                            Some("killed") => {
                                !*has_state
                                    && (f.kill_at.map_or(false, |q| q < pos)
                                        || (is_tl && sc.specs[child].variant().is_instant() && f.abort_at.map_or(false, |q| q < pos)))
                            }
                            Some("actor_task_cancelled") => !*has_state && f.abort_at.map_or(false, |q| q < pos),
                            Some("Drained") => state_ok_graceful && f.drain_at.map_or(false, |q| q < pos),
                            Some("why") => state_ok_graceful && f.stop_reason_at.map_or(false, |q| q < pos),
                            None => state_ok_graceful && f.stop_at.map_or(false, |q| q < pos),
                            Some(_) => false,
                        }
                    }
                    _ => true,
                };
                if !ok {
                    return Err(viol(
                        "C04/terminal-event-class",
                        format!("actor {a} got {tag:?} at #{pos} for child {child}, which no cause issued before that point explains (facts: {f:?})"),
                    ));
                }
            }
        }
    }
    // exactly-one rules for S (only evaluated when the scenario ran to the probe point)
    let complete = run.end.iter().all(|e| *e == DriveEnd::Done);
    let mut nontrivial = false;
    for child in 1..=k {
        let f = facts.get(&child).unwrap();
        let t = terminal.get(&(0, child as i64)).cloned().unwrap_or_default();
        let s = started.get(&(0, child as i64)).cloned().unwrap_or_default();
        if t.len() > 1 {
            return Err(viol("C04/terminal-twice", format!("supervisor received {} terminal events for child {child} (at {t:?})", t.len())));
        }
        if s.len() > 1 {
            return Err(viol("C04/started-twice", format!("supervisor received ActorStarted {} times for child {child}", s.len())));
        }
        if let (Some(sp), Some(tp)) = (s.first(), t.first()) {
            if sp > tp {
                return Err(viol("C04/started-after-terminal", format!("child {child}: ActorStarted at #{sp} after the terminal event at #{tp}")));
            }
        }
        if !s.is_empty() && !f.post_start_ok {
            return Err(viol("C04/started-without-post_start", format!("child {child}: ActorStarted delivered but post_start never returned Ok")));
        }
        let m_t = terminal.get(&(m, child as i64)).map(|v| v.len()).unwrap_or(0);
        if m_t > 1 {
            return Err(viol("C04/monitor-terminal-twice", format!("monitor received {m_t} terminal events for child {child}")));
        }
        if complete {
            // the child counts as started under S iff its pre_start returned Ok: everything after that
            // up to the spawn of its processing loop is synchronous (an aborted *starter* task may
            // still lose the handle, which does not un-start the actor)
            let start_refused = tr.iter().any(|e| match &e.ev {
                Ev::OpEnd { c, i, res: Res::Err(msg) } => {
                    matches!(op_of(*c, *i), Some(Op::Spawn(t)) | Some(Op::AwaitStart(t)) if *t as usize == child) && !msg.starts_with("join:")
                }
                _ => false,
            });
            let spawned = !start_refused && tr.iter().any(|e| matches!(&e.ev, Ev::Exit { a, cb: Cb::PreStart, ok: true } if *a == child));
            let _ = &run.spawn_ok;
            // S must hear about it iff it was still alive (Draining counts) when the child was Stopped
            let child_stopped = tr.iter().position(|e| matches!(&e.ev, Ev::Status { a, st } if *a == child && *st >= 6));
            let s_stopping = tr.iter().position(|e| matches!(&e.ev, Ev::Status { a: 0, st } if *st >= 5));
            let s_alive_then = match (child_stopped, s_stopping) {
                (Some(c), Some(s)) => c < s,
                (Some(_), None) => true,
                (None, _) => false,
            };
            if s_stopping.is_some() {
                labels.push(if s_alive_then { "child-died-under-draining-supervisor".into() } else { "supervisor-gone-first".to_string() });
            }
            if spawned && s_alive_then && t.len() != 1 {
                return Err(viol(
                    "C04/terminal-missing",
                    format!("child {child} started under the supervisor and is dead, but the supervisor received {} terminal events", t.len()),
                ));
            }
            if !spawned && (!t.is_empty() || !s.is_empty()) {
                return Err(viol(
                    "C04/event-for-failed-start",
                    format!("child {child} never started (spawn failed) but the supervisor received events about it (started {s:?}, terminal {t:?})"),
                ));
            }
            if spawned && f.post_start_ok && s_stopping.is_none() && s.len() != 1 {
                return Err(viol("C04/started-missing", format!("child {child}: post_start returned Ok but ActorStarted was delivered {} times", s.len())));
            }
            // join handle
            match run.handles.get(&child) {
                Some(Err(())) => return Err(viol("C04/join-handle-pending", format!("child {child} is dead but its join handle has not completed"))),
                Some(Ok(Res::Ok)) => {}
                Some(Ok(Res::Err(e))) if e == "cancelled" && run.aborted.contains(&child) => {}
                Some(Ok(other)) => return Err(viol("C04/join-handle-abnormal", format!("child {child}: join handle resolved {other:?} (aborted={})", run.aborted.contains(&child)))),
                None => {}
            }
            // non-trivial: a failure/abort, and the supervisor did something else between cause and report
            let cause_pos = f.failures.iter().map(|x| x.0).chain(f.abort_at).min();
            if let (Some(q), Some(p)) = (cause_pos, t.first()) {
                if q < *p && tr[q..*p].iter().any(|e| matches!(&e.ev, Ev::Enter { a: 0, .. })) {
                    nontrivial = true;
                }
            }
        }
    }
    if complete {
        // bystander and supervisor still alive
        let probes: Vec<&Res> = tr[run.probe_pos..].iter().filter_map(|e| if let Ev::OpEnd { res, .. } = &e.ev { Some(res) } else { None }).collect();
        if probes.len() >= 2 {
            if !matches!(probes[0], Res::Success(_)) {
                return Err(viol("C04/bystander-hurt", format!("unrelated actor no longer answers: {:?}", probes[0])));
            }
            let s_drained = sc.clients.iter().flatten().any(|o| matches!(o, Op::Drain(0)));
            if !s_drained && !matches!(probes[1], Res::Success(_)) {
                return Err(viol("C04/supervisor-hurt", format!("supervisor (which handles all events) no longer answers: {:?}", probes[1])));
            }
        }
        let _ = u;
    }
    for (a, f) in &facts {
        if *a >= 1 && *a <= k {
            if !f.failures.is_empty() {
                labels.push(format!("fail-in-{:?}", f.failures[0].1));
            }
            if f.abort_at.is_some() {
                labels.push("abort".into());
            }
        }
    }
    if !complete {
        labels.push("incomplete".into());
    }
    Ok((nontrivial, labels))
}

impl Part for C04 {
    type Case = Case;
    const PROP: &'static str = "C04";
    const PART: &'static str = "e1";
    fn cases(tier: Tier) -> u32 {
        match tier {
            Tier::Quick => 100_000,
            Tier::Thorough => 2_000_000,
        }
    }
    fn strategy(tier: Tier) -> BoxedStrategy<Case> {
        strategy(tier)
    }
    fn run(case: &Case, want_trace: bool) -> Outcome {
        let run = execute(case);
        let trace = if want_trace { fmt_trace(&run.trace) } else { vec![] };
        if let Some(p) = &run.client_panic {
            return Outcome { verdict: Verdict::Fail(viol("C04/client-panic", p.clone())), nontrivial: false, labels: vec![], trace };
        }
        match check(case, &run) {
            Err(v) => Outcome { verdict: Verdict::Fail(v), nontrivial: false, labels: vec![], trace },
            Ok((nontrivial, labels)) => {
                if run.end.iter().any(|e| *e == DriveEnd::Budget) {
                    return Outcome { verdict: Verdict::Inconclusive("step budget".into()), nontrivial: false, labels, trace };
                }
                if run.end.iter().any(|e| *e == DriveEnd::Stuck) {
                    return Outcome { verdict: Verdict::Fail(viol("C04/stuck", format!("{:?}", run.end))), nontrivial, labels, trace };
                }
                Outcome { verdict: Verdict::Pass, nontrivial, labels, trace }
            }
        }
    }
    fn rule() -> &'static str {
        "generated supervisor S (kept alive, handlers with awaits) with 1-3 linked children (Send/thread-local, instant or not), each with one generated exit cause (Err/panic in pre_start/post_start/handle/handle_supervisor_evt/post_stop, stop, drain, kill, abort of the child's task after a generated delay), a grandchild, an unrelated bystander and a monitor; oracle = exactly one classified terminal event per started child in S's log, ActorStarted rules, nothing for failed starts, join handles, bystander probe; non-trivial = a hook failure or task abort whose report reached S after S had started other work in between"
    }
}
