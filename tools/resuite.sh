#!/bin/bash
# usage: resuite.sh <ID> <m> : re-run the existing suite with the patch in the scratch worktree, listing failures
ID=$1; M=$2; WT=/tmp/wt/$ID; OUT=/tmp/wt/out/$ID/$M
cd $WT && git checkout -q -- . && git clean -fdq -e target && git apply $OUT/patch.diff || exit 9
echo "### resuite $ID/$M $(date -u +%T)" >> $OUT/confirm.txt
NO_COLOR=1 cargo nextest run --workspace --no-fail-fast --tool-config-file pb:/w/lib/nextest.toml --profile pb --test-threads 8 --offline 2>&1 | grep -E "Summary|^\s+(FAIL|TIMEOUT|SIGABRT)" | sort -u | head -12 >> $OUT/confirm.txt
git checkout -q -- . ; git clean -fdq -e target
tail -4 $OUT/confirm.txt
